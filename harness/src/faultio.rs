//! Fault-injecting `Read` / `Seek` / `Write` wrappers (DESIGN.md 4.9, 5.4; owner: group B).
//!
//! A `Script` is the concrete image of one behaviour of `spec/IoFaults.tla`: the source (sink) is a finite
//! byte string, optionally truncated at `trunc`; call number `call` (0-based, counted over read / write
//! calls of the wrapped object, faulted calls included) returns `Short(m)`, `Interrupted`, `Err(kind)` or
//! (sinks) `Ok(0)`; `chunk` bounds every transfer ("arbitrarily short reads / writes"); `intr_every` makes
//! every k-th call report `Interrupted` once. Every inner call is logged as (direction, requested, returned,
//! offset before the call) so that `Trace_IoFaults.tla` can check the layer contracts on the log.
use std::io::{self, ErrorKind, Read, Seek, SeekFrom, Write};
use std::sync::{Arc, Mutex};

use serde::{Deserialize, Serialize};

#[derive(Deserialize, Serialize, Clone, Debug, Default)]
pub struct FaultAt {
    pub call: u64,
    /// "short" | "intr" | "err" | "zero"
    pub kind: String,
    #[serde(default)]
    pub m: usize,
    #[serde(default)]
    pub err: String,
}

#[derive(Deserialize, Serialize, Clone, Debug, Default)]
pub struct Script {
    #[serde(default)]
    pub trunc: Option<u64>,
    #[serde(default)]
    pub faults: Vec<FaultAt>,
    #[serde(default)]
    pub chunk: Option<usize>,
    #[serde(default)]
    pub intr_every: Option<u64>,
    /// after an injected error every further call fails the same way
    #[serde(default)]
    pub sticky: bool,
    /// sinks: total number of bytes the sink accepts before it reports `sink_full_err` (None = unbounded)
    #[serde(default)]
    pub capacity: Option<u64>,
}

pub fn kind_from(s: &str) -> ErrorKind {
    match s {
        "NotFound" => ErrorKind::NotFound,
        "PermissionDenied" => ErrorKind::PermissionDenied,
        "ConnectionRefused" => ErrorKind::ConnectionRefused,
        "ConnectionReset" => ErrorKind::ConnectionReset,
        "ConnectionAborted" => ErrorKind::ConnectionAborted,
        "NotConnected" => ErrorKind::NotConnected,
        "BrokenPipe" => ErrorKind::BrokenPipe,
        "WouldBlock" => ErrorKind::WouldBlock,
        "InvalidInput" => ErrorKind::InvalidInput,
        "InvalidData" => ErrorKind::InvalidData,
        "TimedOut" => ErrorKind::TimedOut,
        "WriteZero" => ErrorKind::WriteZero,
        "Interrupted" => ErrorKind::Interrupted,
        "Unsupported" => ErrorKind::Unsupported,
        "UnexpectedEof" => ErrorKind::UnexpectedEof,
        "OutOfMemory" => ErrorKind::OutOfMemory,
        _ => ErrorKind::Other,
    }
}

pub fn kind_name(k: ErrorKind) -> String {
    format!("{:?}", k)
}

/// One inner call: d = 'r' read, 'w' write, 's' seek, 'f' flush; ret = bytes transferred (seek: new offset),
/// -1 for an error (kind in `k`).
#[derive(Serialize, Clone, Debug)]
pub struct IoEv {
    pub d: char,
    pub req: u64,
    pub ret: i64,
    pub k: String,
    pub off: u64,
    /// true when this call's result was dictated by the fault script (truncation excluded)
    pub inj: bool,
}

#[derive(Default, Debug)]
pub struct Shared {
    pub log: Vec<IoEv>,
    pub log_cap: usize,
    pub calls: u64,
    pub bytes: u64,
    pub eof_hits: u64,
    pub injected: Vec<(u64, String)>,
    pub err_delivered: Option<String>,
    pub calls_after_err: u64,
    pub max_off: u64,
    pub sink: Vec<u8>,
    pub flushes: u64,
    pub ops: u64,
}

pub type Sh = Arc<Mutex<Shared>>;

/// Bumped by every source / sink operation and by every successful call of the object under test: the watchdog of
/// hostile.rs reports a case as spinning when the process burns CPU while this counter stands still.
pub static PROGRESS: std::sync::atomic::AtomicU64 = std::sync::atomic::AtomicU64::new(0);

#[inline]
pub fn progress() {
    PROGRESS.fetch_add(1, std::sync::atomic::Ordering::Relaxed);
}

/// Set by the driver while it calls a reader again after its first error: faults delivered to those extra calls are
/// still injected but no longer recorded as "the error the reader had to report" (`err_delivered`, `injected`).
pub static PROBING: std::sync::atomic::AtomicBool = std::sync::atomic::AtomicBool::new(false);

fn probing() -> bool {
    PROBING.load(std::sync::atomic::Ordering::Relaxed)
}

/// Source operations (reads + seeks) a reader may issue on an input of `len` bytes before it is reported as spinning:
/// the byte-wise readers need about one call per input byte.
pub fn op_budget(len: usize) -> u64 {
    64 * len as u64 + 200_000
}
pub const OPS_MARK: &str = "VH-SOURCE-OP-BUDGET";

pub fn shared(log_cap: usize) -> Sh {
    Arc::new(Mutex::new(Shared { log_cap, ..Default::default() }))
}

/// Calls at end of input beyond this many without the reader returning are reported as a structural spin.
pub const EOF_SPIN_LIMIT: u64 = 2_000_000;
pub const SPIN_MARK: &str = "VH-EOF-SPIN";

pub struct FaultSource {
    data: Arc<Vec<u8>>,
    len: u64,
    pos: u64,
    script: Script,
    intr_pending: bool,
    sticky_err: Option<String>,
    sh: Sh,
}

impl FaultSource {
    pub fn new(data: Arc<Vec<u8>>, script: Script, sh: Sh) -> Self {
        let len = match script.trunc {
            Some(t) => t.min(data.len() as u64),
            None => data.len() as u64,
        };
        FaultSource { data, len, pos: 0, script, intr_pending: true, sticky_err: None, sh }
    }

    fn push(&self, s: &mut Shared, ev: IoEv) {
        if s.log.len() < s.log_cap {
            s.log.push(ev);
        }
    }
}

impl Read for FaultSource {
    fn read(&mut self, buf: &mut [u8]) -> io::Result<usize> {
        let sh = self.sh.clone();
        let mut s = sh.lock().unwrap();
        let call = s.calls;
        s.calls += 1;
        s.ops += 1;
        progress();
        if s.ops > op_budget(self.data.len()) {
            drop(s);
            panic!("{}", OPS_MARK);
        }
        if s.err_delivered.is_some() {
            s.calls_after_err += 1;
        }
        let off = self.pos;
        let req = buf.len() as u64;
        if let Some(k) = self.sticky_err.clone() {
            self.push(&mut s, IoEv { d: 'r', req, ret: -1, k: k.clone(), off, inj: true });
            return Err(io::Error::new(kind_from(&k), "injected source error (sticky)"));
        }
        let mut limit = buf.len();
        let mut inj = false;
        if let Some(f) = self.script.faults.iter().find(|f| f.call == call) {
            match f.kind.as_str() {
                "intr" => {
                    s.injected.push((call, "intr".into()));
                    self.push(&mut s, IoEv { d: 'r', req, ret: -1, k: "Interrupted".into(), off, inj: true });
                    return Err(io::Error::new(ErrorKind::Interrupted, "injected interrupt"));
                }
                "err" => {
                    if !probing() {
                        s.injected.push((call, format!("err:{}", f.err)));
                        s.err_delivered = Some(f.err.clone());
                    }
                    if self.script.sticky {
                        self.sticky_err = Some(f.err.clone());
                    }
                    self.push(&mut s, IoEv { d: 'r', req, ret: -1, k: f.err.clone(), off, inj: true });
                    return Err(io::Error::new(kind_from(&f.err), "injected source error"));
                }
                "short" => {
                    let m = f.m.max(1);
                    if m < limit {
                        limit = m;
                        inj = true;
                        s.injected.push((call, format!("short:{}", m)));
                    }
                }
                _ => {}
            }
        }
        if let Some(k) = self.script.intr_every {
            if k > 0 && call % k == k - 1 && self.intr_pending {
                self.intr_pending = false;
                s.injected.push((call, "intr".into()));
                self.push(&mut s, IoEv { d: 'r', req, ret: -1, k: "Interrupted".into(), off, inj: true });
                return Err(io::Error::new(ErrorKind::Interrupted, "injected interrupt"));
            }
            self.intr_pending = true;
        }
        if let Some(c) = self.script.chunk {
            if c.max(1) < limit {
                limit = c.max(1);
                inj = true;
            }
        }
        let avail = self.len.saturating_sub(self.pos) as usize;
        let n = limit.min(avail);
        if n == 0 && !buf.is_empty() {
            s.eof_hits += 1;
            if s.eof_hits > EOF_SPIN_LIMIT {
                drop(s);
                panic!("{}", SPIN_MARK);
            }
        }
        let p = self.pos as usize;
        buf[..n].copy_from_slice(&self.data[p..p + n]);
        self.pos += n as u64;
        s.bytes += n as u64;
        if self.pos > s.max_off {
            s.max_off = self.pos;
        }
        self.push(&mut s, IoEv { d: 'r', req, ret: n as i64, k: String::new(), off, inj });
        Ok(n)
    }
}

impl Seek for FaultSource {
    fn seek(&mut self, to: SeekFrom) -> io::Result<u64> {
        let sh = self.sh.clone();
        let mut s = sh.lock().unwrap();
        s.ops += 1;
        progress();
        if s.ops > op_budget(self.data.len()) {
            drop(s);
            panic!("{}", OPS_MARK);
        }
        let off = self.pos;
        let new = match to {
            SeekFrom::Start(p) => p as i128,
            SeekFrom::End(d) => self.len as i128 + d as i128,
            SeekFrom::Current(d) => self.pos as i128 + d as i128,
        };
        if new < 0 {
            self.push(&mut s, IoEv { d: 's', req: 0, ret: -1, k: "InvalidInput".into(), off, inj: false });
            return Err(io::Error::new(ErrorKind::InvalidInput, "seek before start"));
        }
        self.pos = new as u64;
        self.push(&mut s, IoEv { d: 's', req: new as u64, ret: new as i64, k: String::new(), off, inj: false });
        Ok(self.pos)
    }
}

pub struct FaultSink {
    script: Script,
    sticky_err: Option<String>,
    intr_pending: bool,
    sh: Sh,
}

impl FaultSink {
    pub fn new(script: Script, sh: Sh) -> Self {
        FaultSink { script, sticky_err: None, intr_pending: true, sh }
    }
}

fn push(s: &mut Shared, ev: IoEv) {
    if s.log.len() < s.log_cap {
        s.log.push(ev);
    }
}

impl Write for FaultSink {
    fn write(&mut self, buf: &[u8]) -> io::Result<usize> {
        let sh = self.sh.clone();
        let mut s = sh.lock().unwrap();
        let call = s.calls;
        s.calls += 1;
        progress();
        if s.err_delivered.is_some() {
            s.calls_after_err += 1;
        }
        let off = s.sink.len() as u64;
        let req = buf.len() as u64;
        if let Some(k) = self.sticky_err.clone() {
            push(&mut s, IoEv { d: 'w', req, ret: -1, k: k.clone(), off, inj: true });
            return Err(io::Error::new(kind_from(&k), "injected sink error (sticky)"));
        }
        let mut limit = buf.len();
        let mut inj = false;
        if let Some(f) = self.script.faults.iter().find(|f| f.call == call) {
            match f.kind.as_str() {
                "intr" => {
                    s.injected.push((call, "intr".into()));
                    push(&mut s, IoEv { d: 'w', req, ret: -1, k: "Interrupted".into(), off, inj: true });
                    return Err(io::Error::new(ErrorKind::Interrupted, "injected interrupt"));
                }
                "err" => {
                    s.injected.push((call, format!("err:{}", f.err)));
                    s.err_delivered = Some(f.err.clone());
                    if self.script.sticky {
                        self.sticky_err = Some(f.err.clone());
                    }
                    push(&mut s, IoEv { d: 'w', req, ret: -1, k: f.err.clone(), off, inj: true });
                    return Err(io::Error::new(kind_from(&f.err), "injected sink error"));
                }
                "zero" => {
                    if !buf.is_empty() {
                        s.injected.push((call, "zero".into()));
                        s.err_delivered = Some("WriteZero".into());
                        push(&mut s, IoEv { d: 'w', req, ret: 0, k: String::new(), off, inj: true });
                        return Ok(0);
                    }
                }
                "short" => {
                    let m = f.m.max(1);
                    if m < limit {
                        limit = m;
                        inj = true;
                        s.injected.push((call, format!("short:{}", m)));
                    }
                }
                _ => {}
            }
        }
        if let Some(k) = self.script.intr_every {
            if k > 0 && call % k == k - 1 && self.intr_pending {
                self.intr_pending = false;
                s.injected.push((call, "intr".into()));
                push(&mut s, IoEv { d: 'w', req, ret: -1, k: "Interrupted".into(), off, inj: true });
                return Err(io::Error::new(ErrorKind::Interrupted, "injected interrupt"));
            }
            self.intr_pending = true;
        }
        if let Some(c) = self.script.chunk {
            if c.max(1) < limit {
                limit = c.max(1);
                inj = true;
            }
        }
        if let Some(cap) = self.script.capacity {
            let room = cap.saturating_sub(s.sink.len() as u64) as usize;
            if room == 0 && !buf.is_empty() {
                s.injected.push((call, "err:StorageFull".into()));
                s.err_delivered = Some("Other".into());
                push(&mut s, IoEv { d: 'w', req, ret: -1, k: "Other".into(), off, inj: true });
                return Err(io::Error::new(ErrorKind::Other, "injected: sink full"));
            }
            if room < limit {
                limit = room;
                inj = true;
            }
        }
        s.sink.extend_from_slice(&buf[..limit]);
        s.bytes += limit as u64;
        push(&mut s, IoEv { d: 'w', req, ret: limit as i64, k: String::new(), off, inj });
        Ok(limit)
    }

    fn flush(&mut self) -> io::Result<()> {
        let sh = self.sh.clone();
        let mut s = sh.lock().unwrap();
        s.flushes += 1;
        let off = s.sink.len() as u64;
        push(&mut s, IoEv { d: 'f', req: 0, ret: 0, k: String::new(), off, inj: false });
        Ok(())
    }
}
