//! Bridge to the reference implementation liblzma (group A; C03, also usable by others).
//! Decoders for .xz / .lzma / .lz / raw filter chains with `total_in` reporting, and encoders over a
//! configuration record (`RefCfg`) covering presets, custom LZMA options, filter chains, checks and
//! multi-block output (LZMA_FULL_FLUSH at given offsets).
use liblzma::stream::{Action, Check, Filters, LzmaOptions, MatchFinder, Mode, Status, Stream, CONCATENATED, PRESET_EXTREME};
use serde::Deserialize;

#[derive(Debug, Clone)]
pub struct RefOut {
    pub data: Vec<u8>,
    pub total_in: u64,
    pub end: bool, // LZMA_STREAM_END seen
}

fn run(mut s: Stream, input: &[u8], finish: bool) -> Result<RefOut, String> {
    let mut out: Vec<u8> = Vec::with_capacity(1 << 16);
    let mut end = false;
    let mut stalls = 0;
    loop {
        let pos = s.total_in() as usize;
        if out.capacity() - out.len() < 1 << 15 {
            out.reserve(1 << 16);
        }
        let before = (s.total_in(), s.total_out());
        let action = if finish { Action::Finish } else { Action::Run };
        match s.process_vec(&input[pos.min(input.len())..], &mut out, action) {
            Ok(Status::StreamEnd) => {
                end = true;
                break;
            }
            Ok(_) => {}
            Err(e) => return Err(format!("{e:?}")),
        }
        if (s.total_in(), s.total_out()) == before {
            stalls += 1;
            if stalls > 3 {
                // no progress possible: input exhausted without end of stream
                if !finish {
                    break;
                }
                return Err("Stall".into());
            }
        } else {
            stalls = 0;
        }
    }
    Ok(RefOut { data: out, total_in: s.total_in(), end })
}

pub fn dec_xz(b: &[u8], concatenated: bool) -> Result<RefOut, String> {
    let s = Stream::new_stream_decoder(u64::MAX, if concatenated { CONCATENATED } else { 0 }).map_err(|e| format!("{e:?}"))?;
    // without LZMA_CONCATENATED the decoder stops at the end of the first stream (Run is enough); with it,
    // Finish tells the decoder that the input is complete
    run(s, b, concatenated)
}

pub fn dec_lzma(b: &[u8]) -> Result<RefOut, String> {
    let s = Stream::new_lzma_decoder(u64::MAX).map_err(|e| format!("{e:?}"))?;
    let r = run(s, b, false)?;
    Ok(r)
}

pub fn dec_lzip(b: &[u8], concatenated: bool) -> Result<RefOut, String> {
    let s = Stream::new_lzip_decoder(u64::MAX, if concatenated { CONCATENATED } else { 0 }).map_err(|e| format!("{e:?}"))?;
    run(s, b, concatenated)
}

/// xz "dictionary size" property byte of the LZMA2 filter: smallest representable size >= d.
pub fn lzma2_dict_prop(d: u32) -> u8 {
    if d == u32::MAX {
        return 40;
    }
    for p in 0u8..40 {
        let size = (2u64 | (p as u64 & 1)) << (p / 2 + 11);
        if size >= d as u64 {
            return p;
        }
    }
    40
}

pub fn dec_raw_lzma2(b: &[u8], dict: u32) -> Result<RefOut, String> {
    let mut f = Filters::new();
    f.lzma2_properties(&[lzma2_dict_prop(dict)]).map_err(|e| format!("{e:?}"))?;
    let s = Stream::new_raw_decoder(&f).map_err(|e| format!("{e:?}"))?;
    run(s, b, false)
}

#[derive(Deserialize, Clone, Debug, Default)]
pub struct RefFilter {
    pub t: String, // delta x86 powerpc ia64 arm armthumb sparc arm64 riscv
    #[serde(default)]
    pub p: u32, // delta: distance 1..256; bcj: start offset
}

#[derive(Deserialize, Clone, Debug, Default)]
pub struct RefCfg {
    #[serde(default)]
    pub preset: u32,
    #[serde(default)]
    pub extreme: bool,
    pub lc: Option<u32>,
    pub lp: Option<u32>,
    pub pb: Option<u32>,
    pub dict: Option<u32>,
    pub nice: Option<u32>,
    pub mf: Option<String>,
    pub mode: Option<String>,
    pub depth: Option<u32>,
    #[serde(default)]
    pub filters: Vec<RefFilter>,
    #[serde(default)]
    pub check: String,
    /// offsets of the input at which LZMA_FULL_FLUSH (.xz: block boundary) is issued
    #[serde(default)]
    pub flush_at: Vec<usize>,
    /// offsets at which LZMA_SYNC_FLUSH is issued (LZMA2: chunk boundary)
    #[serde(default)]
    pub sync_at: Vec<usize>,
}

pub fn lzma_options(c: &RefCfg) -> Result<LzmaOptions, String> {
    let mut o = LzmaOptions::new_preset(c.preset | if c.extreme { PRESET_EXTREME } else { 0 }).map_err(|e| format!("{e:?}"))?;
    if let Some(v) = c.lc {
        o.literal_context_bits(v);
    }
    if let Some(v) = c.lp {
        o.literal_position_bits(v);
    }
    if let Some(v) = c.pb {
        o.position_bits(v);
    }
    if let Some(v) = c.dict {
        o.dict_size(v);
    }
    if let Some(v) = c.nice {
        o.nice_len(v);
    }
    if let Some(v) = c.depth {
        o.depth(v);
    }
    if let Some(m) = &c.mf {
        o.match_finder(match m.as_str() {
            "hc3" => MatchFinder::HashChain3,
            "hc4" => MatchFinder::HashChain4,
            "bt2" => MatchFinder::BinaryTree2,
            "bt3" => MatchFinder::BinaryTree3,
            _ => MatchFinder::BinaryTree4,
        });
    }
    if let Some(m) = &c.mode {
        o.mode(if m == "fast" { Mode::Fast } else { Mode::Normal });
    }
    Ok(o)
}

pub fn filters(c: &RefCfg, lzma1: bool) -> Result<Filters, String> {
    let o = lzma_options(c)?;
    let mut f = Filters::new();
    for x in &c.filters {
        let bcj = |p: u32| -> Vec<u8> { if p == 0 { vec![] } else { p.to_le_bytes().to_vec() } };
        let r = match x.t.as_str() {
            "delta" => f.delta_properties(&[(x.p.max(1) - 1) as u8]).map(|_| ()),
            "x86" => f.x86_properties(&bcj(x.p)).map(|_| ()),
            "powerpc" => f.powerpc_properties(&bcj(x.p)).map(|_| ()),
            "ia64" => f.ia64_properties(&bcj(x.p)).map(|_| ()),
            "arm" => f.arm_properties(&bcj(x.p)).map(|_| ()),
            "armthumb" => f.arm_thumb_properties(&bcj(x.p)).map(|_| ()),
            "sparc" => f.sparc_properties(&bcj(x.p)).map(|_| ()),
            "arm64" => f.arm64_properties(&bcj(x.p)).map(|_| ()),
            "riscv" => f.riscv_properties(&bcj(x.p)).map(|_| ()),
            other => return Err(format!("unknown filter {other}")),
        };
        r.map_err(|e| format!("{e:?}"))?;
    }
    if lzma1 {
        f.lzma1(&o);
    } else {
        f.lzma2(&o);
    }
    Ok(f)
}

pub fn check_of(s: &str) -> Check {
    match s {
        "none" => Check::None,
        "crc32" => Check::Crc32,
        "sha256" => Check::Sha256,
        _ => Check::Crc64,
    }
}

fn encode(mut s: Stream, data: &[u8], full: &[usize], sync: &[usize]) -> Result<Vec<u8>, String> {
    let mut out: Vec<u8> = Vec::with_capacity(data.len() / 2 + (1 << 16));
    let mut cuts: Vec<(usize, Action)> = full.iter().map(|&o| (o.min(data.len()), Action::FullFlush)).collect();
    cuts.extend(sync.iter().map(|&o| (o.min(data.len()), Action::SyncFlush)));
    cuts.sort_by_key(|c| c.0);
    cuts.push((data.len(), Action::Finish));
    let mut pos = 0usize;
    for (end, action) in cuts {
        if end < pos {
            continue;
        }
        if matches!(action, Action::Finish) == false && end == pos && pos == 0 {
            continue; // flushing before any input is not meaningful
        }
        let base = s.total_in() as usize;
        loop {
            if out.capacity() - out.len() < 1 << 15 {
                out.reserve(1 << 16);
            }
            let done = s.total_in() as usize - base;
            let st = s.process_vec(&data[pos + done..end], &mut out, action).map_err(|e| format!("{e:?}"))?;
            if let Status::StreamEnd = st {
                break;
            }
        }
        pos = end;
    }
    Ok(out)
}

pub fn enc_xz(data: &[u8], c: &RefCfg) -> Result<Vec<u8>, String> {
    let f = filters(c, false)?;
    let s = Stream::new_stream_encoder(&f, check_of(&c.check)).map_err(|e| format!("{e:?}"))?;
    encode(s, data, &c.flush_at, &c.sync_at)
}

pub fn enc_lzma(data: &[u8], c: &RefCfg) -> Result<Vec<u8>, String> {
    let o = lzma_options(c)?;
    let s = Stream::new_lzma_encoder(&o).map_err(|e| format!("{e:?}"))?;
    encode(s, data, &[], &[])
}

/// raw filter chain ending in LZMA2 (no container)
pub fn enc_raw_lzma2(data: &[u8], c: &RefCfg) -> Result<Vec<u8>, String> {
    let f = filters(c, false)?;
    let s = Stream::new_raw_encoder(&f).map_err(|e| format!("{e:?}"))?;
    encode(s, data, &[], &c.sync_at)
}

/// raw decode through an arbitrary chain
pub fn dec_raw_chain(b: &[u8], c: &RefCfg) -> Result<RefOut, String> {
    let f = filters(c, false)?;
    let s = Stream::new_raw_decoder(&f).map_err(|e| format!("{e:?}"))?;
    run(s, b, false)
}
