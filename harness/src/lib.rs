//! Verification harness for lzma-rust2: drives the real code from TLC-derived scenarios and
//! records traces for TLC trace validation. See /verif/DESIGN.md.
pub mod gen;
pub mod mt;
