//! Verification harness for lzma-rust2: drives the real code from TLC-derived scenarios and
//! records traces for TLC trace validation. See /verif/DESIGN.md.
pub mod gen;
pub mod mt;
// group B (C04 / C05 / C06)
pub mod corrupt;
pub mod faultio;
pub mod hostile;
pub mod strict;
pub mod refb;
pub mod forge;
pub mod cont;
// group D (C07 / C11 / C17 / C19)
pub mod tio;
pub mod filters;
pub mod bcj2m;
pub mod partition;
pub mod options;
pub mod mem;
// group C2 (C14; symbol / decoder specs)
pub mod symforge;
pub mod sym;
// group C1 (C01 / C13 / C15)
pub mod codec;
pub mod transcript;
