// Transcript protocol of C14 (group C2) - shared source of the std harness (`vh_transcript`) and of the
// no_std harness crate (/verif/harness_nostd), textually included by both. The including module provides
//   shim::{Read, Write, Err, Res<T>, kind_name(&Err) -> String}   (std::io resp. the crate's no_std types)
//   gen  (the data generators, harness/src/gen.rs)
// One JSON case per input line; one JSON transcript line per case and per mutation of its compressed stream.
// Nothing in a transcript line may depend on the feature configuration: equal lines are the oracle.

use lzma_rust2::{
    EncodeMode, LZIPOptions, LZIPReader, LZIPWriter, LZMA2Options, LZMA2Reader, LZMA2Writer, LZMAOptions, LZMAReader,
    LZMAWriter, MFType, XZOptions, XZReader, XZWriter,
};
use serde_json::{json, Value};
use std::num::NonZeroU64;
use std::panic::{catch_unwind, AssertUnwindSafe};

/// Owned in-memory source.
pub struct Cur {
    v: Vec<u8>,
    p: usize,
}

impl Read for Cur {
    fn read(&mut self, b: &mut [u8]) -> Res<usize> {
        let n = b.len().min(self.v.len() - self.p);
        b[..n].copy_from_slice(&self.v[self.p..self.p + n]);
        self.p += n;
        Ok(n)
    }
}

fn gu(v: &Value, k: &str, d: u64) -> u64 {
    v.get(k).and_then(|x| x.as_u64()).unwrap_or(d)
}

fn options(o: &Value) -> LZMAOptions {
    let mut opt = LZMAOptions::with_preset(gu(o, "preset", 6) as u32);
    if let Some(x) = o.get("dict").and_then(|x| x.as_u64()) {
        opt.dict_size = x as u32;
    }
    if let Some(x) = o.get("lc").and_then(|x| x.as_u64()) {
        opt.lc = x as u32;
    }
    if let Some(x) = o.get("lp").and_then(|x| x.as_u64()) {
        opt.lp = x as u32;
    }
    if let Some(x) = o.get("pb").and_then(|x| x.as_u64()) {
        opt.pb = x as u32;
    }
    if let Some(x) = o.get("nice").and_then(|x| x.as_u64()) {
        opt.nice_len = x as u32;
    }
    if let Some(x) = o.get("depth").and_then(|x| x.as_i64()) {
        opt.depth_limit = x as i32;
    }
    if let Some(x) = o.get("mode").and_then(|x| x.as_str()) {
        opt.mode = if x == "fast" { EncodeMode::Fast } else { EncodeMode::Normal };
    }
    if let Some(x) = o.get("mf").and_then(|x| x.as_str()) {
        opt.mf = if x == "hc4" { MFType::HC4 } else { MFType::BT4 };
    }
    opt
}

fn feed<W: Write>(w: &mut W, data: &[u8], part: usize, flush: bool) -> Res<()> {
    for p in data.chunks(part.max(1)) {
        w.write_all(p)?;
        if flush {
            w.flush()?;
        }
    }
    Ok(())
}

fn compress(j: &Value, data: &[u8]) -> Res<Vec<u8>> {
    let opt = options(&j["opts"]);
    let part = gu(j, "write", 1 << 20) as usize;
    let flush = j.get("flush").and_then(|x| x.as_bool()).unwrap_or(false);
    match j["fmt"].as_str().unwrap_or("lzma") {
        "lzma2" => {
            let o = LZMA2Options { lzma_options: opt, chunk_size: j.get("chunk").and_then(|x| x.as_u64()).and_then(NonZeroU64::new) };
            let mut w = LZMA2Writer::new(Vec::new(), o);
            feed(&mut w, data, part, flush)?;
            w.finish()
        }
        "xz" => {
            let mut o = XZOptions::with_preset(6);
            o.lzma_options = opt;
            o.block_size = j.get("chunk").and_then(|x| x.as_u64()).and_then(NonZeroU64::new);
            let mut w = XZWriter::new(Vec::new(), o)?;
            feed(&mut w, data, part, flush)?;
            w.finish()
        }
        "lzip" => {
            let o = LZIPOptions { lzma_options: opt, member_size: j.get("chunk").and_then(|x| x.as_u64()).and_then(NonZeroU64::new) };
            let mut w = LZIPWriter::new(Vec::new(), o);
            feed(&mut w, data, part, flush)?;
            w.finish()
        }
        _ => {
            let known = j.get("size_known").and_then(|x| x.as_bool()).unwrap_or(false);
            let mut w = LZMAWriter::new_use_header(Vec::new(), &opt, if known { Some(data.len() as u64) } else { None })?;
            feed(&mut w, data, part, false)?;
            w.finish()
        }
    }
}

/// What one read call shows its caller: bytes delivered (count + digest) or the kind of the error.
fn call_result(r: Res<usize>, buf: &[u8]) -> String {
    match r {
        Ok(n) => format!("ok:{}:{}", n, gen::digest(&buf[..n.min(buf.len())])),
        Err(e) => format!("err:{}", kind_name(&e)),
    }
}

/// Number of further read calls made on a reader after the call that ended the main loop (first error, end of
/// stream, output limit): a caller that polls again observes their results too.
const AFTER_CALLS: usize = 4;

/// The reader's observable behaviour: bytes delivered until the first error / end of stream, the first error, and the
/// results of `AFTER_CALLS` further read calls (the read-size pattern simply continues).
struct Pulled {
    out: Vec<u8>,
    err: Option<Err>,
    after: Vec<String>,
}

fn pull<R: Read>(r: &mut R, reads: &[usize], limit: usize) -> Pulled {
    let mut out = Vec::new();
    let mut buf = vec![0u8; reads.iter().copied().max().unwrap_or(4096).max(1)];
    let mut i = 0usize;
    let mut err = None;
    loop {
        let k = if reads.is_empty() { buf.len() } else { reads[i % reads.len()] };
        i += 1;
        match r.read(&mut buf[..k]) {
            Ok(0) if k > 0 => break,
            Ok(n) => out.extend_from_slice(&buf[..n]),
            Err(e) => {
                err = Some(e);
                break;
            }
        }
        if out.len() > limit || i > (1 << 24) {
            break;
        }
    }
    let mut after = Vec::new();
    for _ in 0..AFTER_CALLS {
        let k = if reads.is_empty() { buf.len() } else { reads[i % reads.len()] };
        i += 1;
        let res = r.read(&mut buf[..k]);
        after.push(format!("{}:{}", k, call_result(res, &buf[..k])));
    }
    Pulled { out, err, after }
}

fn no_reader(e: Err) -> Pulled {
    Pulled { out: Vec::new(), err: Some(e), after: Vec::new() }
}

fn decode(fmt: &str, stream: Vec<u8>, dict: u32, reads: &[usize], limit: usize) -> Pulled {
    let src = Cur { v: stream, p: 0 };
    match fmt {
        "lzma2" => pull(&mut LZMA2Reader::new(src, dict, None), reads, limit),
        "xz" => pull(&mut XZReader::new(src, true), reads, limit),
        "lzip" => match LZIPReader::new(src) {
            Ok(mut r) => pull(&mut r, reads, limit),
            Err(e) => no_reader(e),
        },
        _ => match LZMAReader::new_mem_limit(src, u32::MAX, None) {
            Ok(mut r) => pull(&mut r, reads, limit),
            Err(e) => no_reader(e),
        },
    }
}

/// Shortens the `idx`-th LZMA chunk of a raw LZMA2 stream by `drop` payload bytes (size field adjusted; with
/// `keep` the payload bytes stay in place and only the size field shrinks). None if there is no such chunk.
fn shorten_chunk(s: &[u8], idx: usize, drop: usize, keep: bool) -> Option<Vec<u8>> {
    let mut p = 0usize;
    let mut n = 0usize;
    while p < s.len() {
        let c = s[p];
        if c == 0 {
            return None;
        }
        if c >= 0x80 {
            if p + 5 > s.len() {
                return None;
            }
            let csize = (((s[p + 3] as usize) << 8) | s[p + 4] as usize) + 1;
            let hdr = if c >= 0xC0 { 6 } else { 5 };
            let end = p + hdr + csize;
            if end > s.len() {
                return None;
            }
            if n == idx {
                if csize <= drop + 5 {
                    return None;
                }
                let nc = csize - drop - 1;
                let mut v = s[..p + 3].to_vec();
                v.push((nc >> 8) as u8);
                v.push((nc & 0xFF) as u8);
                v.extend_from_slice(&s[p + 5..if keep { end } else { end - drop }]);
                v.extend_from_slice(&s[end..]);
                return Some(v);
            }
            n += 1;
            p = end;
        } else if c <= 2 {
            if p + 3 > s.len() {
                return None;
            }
            p += 3 + ((((s[p + 1] as usize) << 8) | s[p + 2] as usize) + 1);
        } else {
            return None;
        }
    }
    None
}

fn mutate(fmt: &str, s: &[u8], m: &Value) -> Option<Vec<u8>> {
    if s.is_empty() {
        return None;
    }
    match m["k"].as_str().unwrap_or("") {
        "flip" => {
            let mut v = s.to_vec();
            let i = gu(m, "at", 0) as usize % v.len();
            v[i] ^= 1 << (gu(m, "bit", 0) % 8);
            Some(v)
        }
        "set" => {
            let mut v = s.to_vec();
            let i = gu(m, "at", 0) as usize % v.len();
            v[i] = gu(m, "val", 0) as u8;
            Some(v)
        }
        "trunc" => {
            let d = (gu(m, "drop", 1) as usize).min(s.len());
            Some(s[..s.len() - d].to_vec())
        }
        "short" if fmt == "lzma2" => shorten_chunk(s, gu(m, "chunk", 0) as usize, gu(m, "drop", 1) as usize, m.get("keep").and_then(|x| x.as_bool()).unwrap_or(false)),
        _ => None,
    }
}

fn dec_line(id: String, fmt: &str, stream: Vec<u8>, dict: u32, reads: &[usize], limit: usize, extra: Value) -> String {
    let sd = gen::digest(&stream);
    let r = catch_unwind(AssertUnwindSafe(|| decode(fmt, stream, dict, reads, limit)));
    let mut l = json!({"id": id, "stream": sd});
    if let Value::Object(m) = extra {
        for (k, v) in m {
            l[k] = v;
        }
    }
    match r {
        Ok(p) => {
            match &p.err {
                None => l["dec"] = json!("ok"),
                Some(e) => {
                    l["dec"] = json!(format!("err:{}", kind_name(e)));
                    l["msg"] = json!(format!("{e:?}")); // diagnostic only, not compared
                }
            }
            l["n"] = json!(p.out.len());
            l["out"] = json!(gen::digest(&p.out));
            // results of the read calls made after the first error / the end of the stream ("<size>:<result>")
            l["after"] = json!(p.after);
        }
        Err(_) => {
            l["dec"] = json!("panic");
        }
    }
    l.to_string()
}

/// Runs one case; returns its transcript lines.
pub fn run_case(j: &Value) -> Vec<String> {
    let id = j["id"].as_str().unwrap_or("?").to_string();
    let fmt = j["fmt"].as_str().unwrap_or("lzma").to_string();
    let reads: Vec<usize> = j.get("reads").and_then(|x| x.as_array()).map(|a| a.iter().map(|x| x.as_u64().unwrap_or(1) as usize).collect()).unwrap_or_default();
    let dict = j["opts"].get("dict").and_then(|x| x.as_u64()).unwrap_or_else(|| gu(j, "dict", 1 << 23)) as u32;
    let mut lines = Vec::new();
    if j["op"].as_str() == Some("dec") {
        let stream = gen::unhex(j["hex"].as_str().unwrap_or(""));
        let limit = gu(j, "limit", 1 << 26) as usize;
        lines.push(dec_line(id, &fmt, stream, dict, &reads, limit, json!({})));
        return lines;
    }
    let d = &j["data"];
    let data = if let Some(h) = d.get("hex").and_then(|x| x.as_str()) {
        gen::unhex(h)
    } else {
        // `len` is the total length; an explicit tail (`tail_hex`) replaces the end of the generated class data
        let tail = d.get("tail_hex").and_then(|x| x.as_str()).map(gen::unhex).unwrap_or_default();
        let len = gu(d, "len", 1000) as usize;
        let mut v = gen::data(d["class"].as_str().unwrap_or("text"), len.saturating_sub(tail.len()), gu(d, "seed", 1));
        v.extend_from_slice(&tail[tail.len() - tail.len().min(len)..]);
        v
    };
    let limit = data.len() * 4 + (1 << 16);
    let comp = match catch_unwind(AssertUnwindSafe(|| compress(j, &data))) {
        Ok(Ok(c)) => c,
        Ok(Err(e)) => {
            lines.push(json!({"id": id, "enc": format!("err:{}", kind_name(&e))}).to_string());
            return lines;
        }
        Err(_) => {
            lines.push(json!({"id": id, "enc": "panic"}).to_string());
            return lines;
        }
    };
    let enc = json!({"enc": "ok", "clen": comp.len()});
    lines.push(dec_line(id.clone(), &fmt, comp.clone(), dict, &reads, limit, enc));
    if let Some(ms) = j.get("muts").and_then(|x| x.as_array()) {
        for (i, m) in ms.iter().enumerate() {
            let mid = format!("{id}/m{i}");
            match mutate(&fmt, &comp, m) {
                Some(s) => lines.push(dec_line(mid, &fmt, s, dict, &reads, limit, json!({"mut": m}))),
                None => lines.push(json!({"id": mid, "mut": m, "dec": "skip"}).to_string()),
            }
        }
    }
    lines
}

pub fn main_loop() {
    use std::io::BufRead;
    std::panic::set_hook(Box::new(|_| {}));
    let stdin = std::io::stdin();
    let mut out = String::new();
    for line in stdin.lock().lines() {
        let line = line.unwrap();
        if line.trim().is_empty() {
            continue;
        }
        let j: Value = match serde_json::from_str(&line) {
            Ok(s) => s,
            Err(e) => {
                eprintln!("bad case: {e}: {line}");
                std::process::exit(2);
            }
        };
        for l in run_case(&j) {
            out.push_str(&l);
            out.push('\n');
        }
    }
    print!("{out}");
}
