//! vh_nostd: the C14 transcript protocol on top of the crate's no_std API. The protocol source is shared
//! textually with the std harness (/verif/harness/src/transcript_core.rs).
#[allow(dead_code)]
#[path = "/verif/harness/src/gen.rs"]
mod gen;

mod shim {
    pub use lzma_rust2::{Read, Write};
    pub type Err = lzma_rust2::Error;
    pub type Res<T> = Result<T, Err>;
    pub fn kind_name(e: &Err) -> String {
        use lzma_rust2::Error::*;
        match e {
            EOF => "UnexpectedEof",
            Interrupted => "Interrupted",
            InvalidData(_) => "InvalidData",
            InvalidInput(_) => "InvalidInput",
            OutOfMemory(_) => "OutOfMemory",
            Other(_) => "Other",
            Unsupported(_) => "Unsupported",
            WriteZero(_) => "WriteZero",
        }
        .to_string()
    }
}

mod t {
    use super::gen;
    use super::shim::*;
    include!("/verif/harness/src/transcript_core.rs");
}

fn main() {
    t::main_loop();
}
