---------------------------- MODULE LzmaSymbols ----------------------------
(* The LZMA `state` / `reps[4]` machine of lzma-rust2, transcribed THREE times from three pieces of code
   that must agree symbol by symbol:

     Enc*  src/enc/encoder.rs   encode_symbol / encode_match / encode_rep_match / LiteralSubEncoder::encode
     Dec*  src/decoder.rs       decode / decode_match / decode_rep_match / LiteralSubDecoder::decode
     Opt*  src/enc/encoder_normal.rs  update_opt_state_and_reps (the optimal parser's private copy)

   and src/state.rs (the Upd operators). Each transcription follows the statement order of its source (sequential
   assignments on a 4-tuple), not a closed form, so that a transcription error or a later code change in one
   of them shows up as a disagreement.

   A machine value is [st |-> 0..11, r |-> <<r0, r1, r2, r3>>] (TLA+ tuples are 1-based: r[1] = reps[0]).
   The design check enumerates every symbol sequence of at most MaxLen symbols over
   {lit, match(d) d \in Dists, longrep0..3, shortrep, end marker} - grouped the way the optimal parser groups
   them into nodes - and checks  enc = dec  /\  opt = enc  in every state, the literal coding mode and
   end-marker detection.  Trace_LzmaSymbols.tla validates recorded per-symbol events of real encodes / decodes
   against the same operators. *)
EXTENDS Integers, Sequences, TLC

CONSTANTS Dists,    \* distances tried for normal matches (naturals)
          MaxLen    \* bound on the number of symbols

Marker == -1        \* distance 0xFFFFFFFF as i32: the end marker

\* ---------------------------------------------------------------- state.rs
LitStates == 7
UpdLit(s)      == IF s <= 3 THEN 0 ELSE IF s <= 9 THEN s - 3 ELSE s - 6
UpdMatch(s)    == IF s < LitStates THEN 7 ELSE 10
UpdLongRep(s)  == IF s < LitStates THEN 8 ELSE 11
UpdShortRep(s) == IF s < LitStates THEN 9 ELSE 11
IsLiteral(s)   == s < LitStates

M0 == [st |-> 0, r |-> <<0, 0, 0, 0>>]      \* LZMACoder::reset

\* ---------------------------------------------------------------- encoder side (encoder.rs)
\* LiteralSubEncoder::encode: plain coding when state.is_literal(), else matched coding with the byte at
\* distance reps[0]; then state.update_literal(). The mode is reported as -1 (plain) or the distance used.
EncLitMode(m) == IF IsLiteral(m.st) THEN -1 ELSE m.r[1]
EncLit(m)     == [st |-> UpdLit(m.st), r |-> m.r]

\* encode_match(dist, len): state.update_match(); ... reps[3]=reps[2]; reps[2]=reps[1]; reps[1]=reps[0]; reps[0]=dist
EncMatch(m, dist) ==
  LET s1 == UpdMatch(m.st)
      a  == [m.r EXCEPT ![4] = m.r[3]]
      b  == [a   EXCEPT ![3] = a[2]]
      c  == [b   EXCEPT ![2] = b[1]]
      d  == [c   EXCEPT ![1] = dist]
  IN [st |-> s1, r |-> d]

\* encode_rep_match(rep, len)
EncRep(m, rep, len) ==
  LET r1 == IF rep = 0 THEN m.r
            ELSE LET dist == m.r[rep + 1]
                     a == IF rep = 3 THEN [m.r EXCEPT ![4] = m.r[3]] ELSE m.r      \* if rep == 3 { reps[3] = reps[2] }
                     b == IF rep >= 2 THEN [a EXCEPT ![3] = a[2]] ELSE a            \* (rep != 1) reps[2] = reps[1]
                     c == [b EXCEPT ![2] = b[1]]                                     \* reps[1] = reps[0]
                 IN [c EXCEPT ![1] = dist]                                           \* reps[0] = dist
  IN [st |-> IF len = 1 THEN UpdShortRep(m.st) ELSE UpdLongRep(m.st), r |-> r1]

\* encode_symbol: back = -1 literal, back < REPS rep match, else match with dist = back - REPS
EncStep(m, back, len) ==
  IF back = -1 THEN EncLit(m)
  ELSE IF back < 4 THEN EncRep(m, back, len)
  ELSE EncMatch(m, back - 4)

\* ---------------------------------------------------------------- decoder side (decoder.rs)
DecLitMode(m) == IF IsLiteral(m.st) THEN -1 ELSE m.r[1]
DecLit(m)     == [st |-> UpdLit(m.st), r |-> m.r]

\* decode_match: state.update_match(); reps[3]=reps[2]; reps[2]=reps[1]; reps[1]=reps[0]; reps[0] = decoded distance
DecMatch(m, dist) ==
  LET a == [m.r EXCEPT ![4] = m.r[3]]
      b == [a   EXCEPT ![3] = a[2]]
      c == [b   EXCEPT ![2] = b[1]]
  IN [st |-> UpdMatch(m.st), r |-> [c EXCEPT ![1] = dist]]

\* decode_rep_match, short rep branch: is_rep0 = 0 and is_rep0_long = 0
DecShortRep(m) == [st |-> UpdShortRep(m.st), r |-> m.r]

\* decode_rep_match, all other branches; i = which rep the bit tree selected
DecLongRep(m, i) ==
  LET r1 == IF i = 0 THEN m.r
            ELSE LET tmp == IF i = 1 THEN m.r[2] ELSE IF i = 2 THEN m.r[3] ELSE m.r[4]
                     a == IF i = 3 THEN [m.r EXCEPT ![4] = m.r[3]] ELSE m.r         \* reps[3] = reps[2]
                     b == IF i >= 2 THEN [a EXCEPT ![3] = a[2]] ELSE a               \* reps[2] = reps[1]
                     c == [b EXCEPT ![2] = b[1]]                                      \* reps[1] = reps[0]
                 IN [c EXCEPT ![1] = tmp]                                             \* reps[0] = tmp
  IN [st |-> UpdLongRep(m.st), r |-> r1]

EndMarkerDetected(m) == m.r[1] = Marker

\* ---------------------------------------------------------------- optimal parser (encoder_normal.rs)
(* update_opt_state_and_reps computes opts[cur].state / .reps from the node it was reached from. A node is
     [p1lit, hasPrev2, back, back2, single]
   p1lit    = prev1_is_literal  (the step ends with  literal + long rep0)
   hasPrev2 = has_prev2         (... preceded by a match / long rep  back2)
   back     = back_prev, back2 = back_prev2, single = (opt_prev == opt_cur - 1).
   `p` is the machine value stored at the node's origin (opts[opt_prev] resp. opts[opt_prev2]). *)
OptStep(p, nd) ==
  LET st0 == IF nd.p1lit
               THEN UpdLit(IF nd.hasPrev2
                             THEN (IF nd.back2 < 4 THEN UpdLongRep(p.st) ELSE UpdMatch(p.st))
                             ELSE p.st)
               ELSE p.st
  IN IF nd.single
       THEN [st |-> IF nd.back = 0 THEN UpdShortRep(st0) ELSE UpdLit(st0), r |-> p.r]
       ELSE LET two  == nd.p1lit /\ nd.hasPrev2
                back == IF two THEN nd.back2 ELSE nd.back
                st1  == IF two THEN UpdLongRep(st0)
                        ELSE IF back < 4 THEN UpdLongRep(st0) ELSE UpdMatch(st0)
                r1   == IF back < 4
                          THEN [i \in 1..4 |-> IF i = 1 THEN p.r[back + 1]
                                               ELSE IF i <= back + 1 THEN p.r[i - 1]
                                               ELSE p.r[i]]
                          ELSE <<back - 4, p.r[1], p.r[2], p.r[3]>>
            IN [st |-> st1, r |-> r1]

\* the symbols a node stands for, as (back, len) pairs in encode order (len 2 stands for any long length)
NodeSyms(nd) ==
  IF nd.single THEN << <<nd.back, 1>> >>
  ELSE IF ~nd.p1lit THEN << <<nd.back, 2>> >>
  ELSE IF ~nd.hasPrev2 THEN << <<-1, 1>>, <<0, 2>> >>
  ELSE << <<nd.back2, 2>>, <<-1, 1>>, <<0, 2>> >>

Backs == (0..3) \cup {d + 4 : d \in Dists}
Nodes ==
     {[p1lit |-> FALSE, hasPrev2 |-> FALSE, back |-> b, back2 |-> 0, single |-> TRUE] : b \in {-1, 0}}
  \cup {[p1lit |-> FALSE, hasPrev2 |-> FALSE, back |-> b, back2 |-> 0, single |-> FALSE] : b \in Backs}
  \cup {[p1lit |-> TRUE, hasPrev2 |-> FALSE, back |-> 0, back2 |-> 0, single |-> FALSE]}
  \cup {[p1lit |-> TRUE, hasPrev2 |-> TRUE, back |-> 0, back2 |-> b, single |-> FALSE] : b \in Backs}

\* ---------------------------------------------------------------- exhaustive agreement check
VARIABLES enc, dec, opt, n, done, litOk
vars == <<enc, dec, opt, n, done, litOk>>

Init == enc = M0 /\ dec = M0 /\ opt = M0 /\ n = 0 /\ done = FALSE /\ litOk = TRUE

RECURSIVE EncRun(_, _), DecRun(_, _), LitModesAgree(_, _, _)
EncRun(m, ss) == IF ss = <<>> THEN m ELSE EncRun(EncStep(m, Head(ss)[1], Head(ss)[2]), Tail(ss))
DecSym(m, s) == IF s[1] = -1 THEN DecLit(m)
                ELSE IF s[1] >= 4 THEN DecMatch(m, s[1] - 4)
                ELSE IF s[2] = 1 THEN DecShortRep(m) ELSE DecLongRep(m, s[1])
DecRun(m, ss) == IF ss = <<>> THEN m ELSE DecRun(DecSym(m, Head(ss)), Tail(ss))
\* both sides pick the same literal coding mode at every literal of the node
LitModesAgree(me, md, ss) ==
  IF ss = <<>> THEN TRUE
  ELSE /\ (Head(ss)[1] = -1 => EncLitMode(me) = DecLitMode(md))
       /\ LitModesAgree(EncStep(me, Head(ss)[1], Head(ss)[2]), DecSym(md, Head(ss)), Tail(ss))

Node(nd) ==
  /\ ~done /\ n + Len(NodeSyms(nd)) <= MaxLen
  /\ enc' = EncRun(enc, NodeSyms(nd))
  /\ dec' = DecRun(dec, NodeSyms(nd))
  /\ opt' = OptStep(opt, nd)
  /\ litOk' = (litOk /\ LitModesAgree(enc, dec, NodeSyms(nd)))
  /\ n' = n + Len(NodeSyms(nd)) /\ UNCHANGED done

\* encode_lzma1_end_marker calls encode_match(u32::MAX, MATCH_LEN_MIN) directly; nothing follows it
EndMarker ==
  /\ ~done /\ n < MaxLen
  /\ enc' = EncMatch(enc, Marker) /\ dec' = DecMatch(dec, Marker)
  /\ done' = TRUE /\ n' = n + 1 /\ UNCHANGED <<opt, litOk>>

Next == (\E nd \in Nodes : Node(nd)) \/ EndMarker
Spec == Init /\ [][Next]_vars

\* ---------------------------------------------------------------- properties
Agree        == enc.st = dec.st /\ enc.r = dec.r                  \* EncState = DecState /\ EncReps = DecReps
OptAgree     == ~done => (opt.st = enc.st /\ opt.r = enc.r)       \* OptState = EncState (and reps)
StateRange   == enc.st \in 0..11 /\ dec.st \in 0..11
LitModeAgree == litOk
\* reps[0] = -1 exactly after the end marker; no other entry ever is -1
MarkerDetection == /\ EndMarkerDetected(dec) <=> done
                   /\ \A i \in 2..4 : dec.r[i] # Marker
=============================================================================
