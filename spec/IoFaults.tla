------------------------------ MODULE IoFaults ------------------------------
(* Readers over a faulty source and writers over a faulty sink (property C05; DESIGN.md 4.9).

   Source  = a finite string of N = Sum(Reqs) abstract bytes, cut at offset `trunc`, plus a fault script:
             call number `call` returns Short(m), Interrupted or Err(kind) instead of its normal result.
   Reader  = a consumer that needs the records Reqs[1..] completely, one after the other, and delivers
             OutPer[r] output bytes per completed record. How a record is fetched is the layer contract:
               read_exact layer   retry on Interrupted, loop on short results, Ok(0) -> UnexpectedEof,
                                  Err(kind) -> Err(kind)                      (lib.rs ByteReader, LZMA2 chunks,
                                                                               LZIP trailer, XZ headers, checks)
               single-read layer  one read(); a short result is reported as corruption
                                  (records in SingleRead: XZReader::consume_padding as first built, D8)
               swallowing layer   a failed or empty read becomes a zero byte and decoding goes on
                                  (records in Swallow: the stream range decoder's `Err(_) => 0`, D7)
   Sink    = accepts bytes; call `call` returns Short(m), Interrupted, Err(kind) or Ok(0).
   Writer  = write_all over the sink, optionally behind a filter layer that keeps a history (Delta / BCJ):
             the filter must not advance its history beyond what the sink accepted (FilterAdvances = the
             defect D9).

   TLC enumerates the complete script set (every truncation point x every call index x every fault kind)
   in Init; every terminal state is exported as JSON (script + predicted result): the scripts are applied,
   rescaled to real offsets and call numbers, to every real reader and writer by tools/checks/c05.py. *)
EXTENDS Naturals, Sequences, FiniteSets, TLC, Json

CONSTANTS Half,            \* "reader" | "writer"
          Reqs,            \* record sizes, Sum <= 12
          OutPer,          \* output bytes per completed record
          MaxCalls,        \* calls 1..MaxCalls can carry the fault (<= 8)
          Kinds,           \* error kinds of the source / sink
          ShortLens,       \* lengths m of Short(m)
          Declared,        \* reader: the stream declares where it ends (size field / end of container)
          SingleRead,      \* record indexes fetched by the single-read layer
          Swallow,         \* record indexes fetched by the swallowing layer
          Writes,          \* writer: sizes of the caller's writes
          Filtered,        \* writer: a history-keeping filter layer sits between caller and sink
          FilterAdvances   \* writer: that layer advances its history by the submitted length (D9)

RECURSIVE SumSeq(_)
SumSeq(s) == IF s = <<>> THEN 0 ELSE Head(s) + SumSeq(Tail(s))
N == SumSeq(Reqs)
Total == SumSeq(OutPer)
W == SumSeq(Writes)
Min2(a, b) == IF a < b THEN a ELSE b

NoFault == [k |-> "none", m |-> 0, e |-> "none"]
\* "chunk": EVERY call transfers at most m bytes (arbitrarily short reads / writes); scripted with call = 0
ChunkFaults == {[k |-> "chunk", m |-> m, e |-> "none"] : m \in ShortLens}
ReaderFaults == {[k |-> "short", m |-> m, e |-> "none"] : m \in ShortLens}
                \cup {[k |-> "intr", m |-> 0, e |-> "none"]}
                \cup {[k |-> "err", m |-> 0, e |-> e] : e \in Kinds}
WriterFaults == ReaderFaults \cup {[k |-> "zero", m |-> 0, e |-> "WriteZero"]}
Scripts ==
  IF Half = "reader"
  THEN {[trunc |-> t, call |-> 0, f |-> f] : t \in 0..N, f \in {NoFault} \cup ChunkFaults}
       \cup {[trunc |-> t, call |-> c, f |-> f] : t \in 0..N, c \in 1..MaxCalls, f \in ReaderFaults}
  ELSE {[trunc |-> W, call |-> 0, f |-> f] : f \in {NoFault} \cup ChunkFaults}
       \cup {[trunc |-> W, call |-> c, f |-> f] : c \in 1..MaxCalls, f \in WriterFaults}

VARIABLES script,   \* the fault script of this behaviour
          pos,      \* reader: source offset / writer: bytes the sink has accepted
          calls,    \* calls made on the source / sink
          rec,      \* reader: current record / writer: current write
          got,      \* bytes of the current record obtained / of the current write accepted
          out,      \* reader: output bytes delivered / writer: bytes the filter has pushed through its history
          res,      \* "run" | "ok" | "err:<kind>"
          errSeen,  \* kind of the injected error once it was delivered to the layer, else "none"
          wrong     \* reader: zero bytes were decoded in place of data / writer: history and sink disagree
vars == <<script, pos, calls, rec, got, out, res, errSeen, wrong>>

ErrRes(k) == "err:" \o k

Init == /\ script \in Scripts
        /\ pos = 0 /\ calls = 0 /\ rec = 1 /\ got = 0 /\ out = 0
        /\ res = (IF Half = "reader" /\ Reqs = <<>> THEN "ok" ELSE IF Half = "writer" /\ Writes = <<>> THEN "ok" ELSE "run")
        /\ errSeen = "none" /\ wrong = FALSE

Faulted == script.call # 0 /\ calls + 1 = script.call

\* ------------------------------------------------------------------ reader
\* the current record received n more bytes (n may be a swallowed zero byte)
Advance(n, realBytes) ==
  /\ pos' = pos + realBytes
  /\ IF got + n = Reqs[rec]
     THEN /\ out' = out + OutPer[rec]
          /\ got' = 0
          /\ IF rec = Len(Reqs)
             THEN IF wrong' /\ ~Declared
                  THEN rec' = rec /\ res' = res        \* no end marker will ever be recognised: goes on decoding
                  ELSE rec' = rec /\ res' = "ok"
             ELSE rec' = rec + 1 /\ res' = res
     ELSE got' = got + n /\ out' = out /\ rec' = rec /\ res' = res

RStep ==
  /\ Half = "reader" /\ res = "run"
  /\ calls' = calls + 1
  /\ script' = script
  /\ LET need == Reqs[rec] - got
         avail == script.trunc - pos
         f == script.f
     IN
     IF Faulted /\ f.k = "intr"
     THEN UNCHANGED <<pos, rec, got, out, res, errSeen, wrong>>           \* retried by every layer
     ELSE IF Faulted /\ f.k = "err"
     THEN /\ errSeen' = f.e
          /\ IF rec \in Swallow
             THEN wrong' = TRUE /\ Advance(1, 0)
             ELSE wrong' = wrong /\ res' = ErrRes(f.e) /\ UNCHANGED <<pos, rec, got, out>>
     ELSE LET lim == IF (Faulted /\ f.k = "short") \/ f.k = "chunk" THEN Min2(f.m, need) ELSE need
              n == Min2(lim, avail)
          IN
          /\ errSeen' = errSeen
          /\ IF n = 0
             THEN IF rec \in Swallow
                  THEN wrong' = TRUE /\ Advance(1, 0)
                  ELSE /\ wrong' = wrong
                       /\ res' = (IF rec \in SingleRead THEN ErrRes("InvalidData") ELSE ErrRes("UnexpectedEof"))
                       /\ UNCHANGED <<pos, rec, got, out>>
             ELSE IF n < need /\ rec \in SingleRead
                  THEN wrong' = wrong /\ res' = ErrRes("InvalidData") /\ UNCHANGED <<pos, rec, got, out>>
                  ELSE wrong' = wrong /\ Advance(n, n)

\* ------------------------------------------------------------------ writer
\* `out` = history position of the filter layer, `pos` = bytes accepted by the sink
WStep ==
  /\ Half = "writer" /\ res = "run"
  /\ calls' = calls + 1
  /\ script' = script
  /\ LET len == Writes[rec] - got
         f == script.f
         hist(n) == IF Filtered /\ FilterAdvances THEN out + len ELSE out + n
     IN
     IF Faulted /\ f.k = "intr"
     THEN \* the caller (write_all) submits the same bytes again
          /\ out' = hist(0) /\ wrong' = (wrong \/ hist(0) # pos)
          /\ UNCHANGED <<pos, rec, got, res, errSeen>>
     ELSE IF Faulted /\ f.k = "err"
     THEN /\ errSeen' = f.e /\ res' = ErrRes(f.e) /\ out' = hist(0) /\ UNCHANGED <<pos, rec, got, wrong>>
     ELSE IF Faulted /\ f.k = "zero"
     THEN /\ errSeen' = "WriteZero" /\ res' = ErrRes("WriteZero") /\ out' = hist(0) /\ UNCHANGED <<pos, rec, got, wrong>>
     ELSE LET n == IF (Faulted /\ f.k = "short") \/ f.k = "chunk" THEN Min2(f.m, len) ELSE len
          IN
          /\ pos' = pos + n /\ out' = hist(n)
          /\ wrong' = (wrong \/ hist(n) # pos + n)
          /\ errSeen' = errSeen
          /\ IF got + n = Writes[rec]
             THEN /\ got' = 0
                  /\ IF rec = Len(Writes) THEN rec' = rec /\ res' = "ok" ELSE rec' = rec + 1 /\ res' = res
             ELSE got' = got + n /\ rec' = rec /\ res' = res

Done == res # "run" /\ UNCHANGED vars
Next == RStep \/ WStep \/ Done
Spec == Init /\ [][Next]_vars

\* output far beyond the declared size needs no further exploration
Bound == out <= Total + 3 /\ calls <= 2 * (N + W) + MaxCalls + 6

\* ------------------------------------------------------------------ properties (C05)
Complete == script.trunc = (IF Half = "reader" THEN N ELSE W)
Benign == script.f.k \in {"none", "short", "intr", "chunk"}
Finished == res # "run"

TypeOK == /\ res \in {"run", "ok"} \cup {ErrRes(k) : k \in Kinds \cup {"UnexpectedEof", "InvalidData", "WriteZero"}}
          /\ pos <= (IF Half = "reader" THEN N ELSE W)
\* a source that ends early never yields success
TruncationIsError == (Half = "reader" /\ res = "ok") => Complete
\* an error delivered by the source / sink is what the caller gets
ErrorKindPropagates == (Finished /\ errSeen # "none") => res = ErrRes(errSeen)
SinkErrorReturned == (Half = "writer" /\ Finished /\ errSeen # "none") => res # "ok"
\* never more output than the stream declares
NoUnboundedOutput == Half = "reader" => out <= Total
\* success means the right bytes
NoWrongSuccess == res = "ok" => (~wrong /\ (Half = "reader" => out = Total) /\ (Half = "writer" => pos = W))
\* short transfers and interrupts change nothing
ShortIoTransparent == (Finished /\ Complete /\ Benign) => (res = "ok" /\ ~wrong /\ (Half = "reader" => pos = N /\ out = Total))

\* ------------------------------------------------------------------ export of the script set
Delivered == script.call # 0 /\ calls >= script.call
Export ==
  Finished => PrintT(ToJson([half |-> Half, trunc |-> script.trunc, n |-> (IF Half = "reader" THEN N ELSE W),
                             call |-> script.call, k |-> script.f.k, m |-> script.f.m, e |-> script.f.e,
                             res |-> res, out |-> out, pos |-> pos, calls |-> calls, delivered |-> Delivered,
                             wrong |-> wrong, rec |-> rec]))
=============================================================================
