---------------------------- MODULE NormModel ----------------------------
(* Position renormalisation of the match finders (hash234.rs::normalize, hc4.rs / bt4.rs chain and tree tables
   -> LZEncoder::normalize -> normalize_scalar | normalize_avx2 | normalize_sse41 | normalize_neon), function level:
   ONE definition, Norm(p, off) = max(p - off, 0), that every implementation variant must refine (C14). What the
   definition has to guarantee for the match finders (positions in a W-bit signed word, see MatchFinderPos.tla of
   group C1 for the dynamic model) is stated here on arrays of *boundary classes* of p relative to off:
     0: p = 0 (never written)   1: p = 1   2: p = off - 1   3: p = off   4: p = off + 1   5: p = MaxPos - 1   6: p = MaxPos
   TLC enumerates every array of at most MaxLen classes; C14 concretises each array to 32-bit values for several
   offsets, places it at several element offsets of a larger buffer (so that it falls into the scalar prefix /
   suffix as well as into SIMD lanes) and runs every implementation variant on it through the H4 accessors. *)
EXTENDS Integers, Sequences, TLC

CONSTANTS Classes,   \* subset of 0..6
          MaxLen

W      == 6                         \* scaled word width
MaxPos == 2 ^ (W - 1) - 1
Off    == 11                        \* a scaled offset with 1 < Off - 1 and Off + 1 < MaxPos - 1
Val(c) == CASE c = 0 -> 0 [] c = 1 -> 1 [] c = 2 -> Off - 1 [] c = 3 -> Off [] c = 4 -> Off + 1
            [] c = 5 -> MaxPos - 1 [] c = 6 -> MaxPos

Norm(p, off) == IF p - off > 0 THEN p - off ELSE 0
\* class of the result: 0 for everything that left the window, else the distance class is preserved
NormArr(a) == [i \in 1..Len(a) |-> Norm(Val(a[i]), Off)]

VARIABLE arr
Init == arr = <<>>
Extend(c) == Len(arr) < MaxLen /\ arr' = Append(arr, c)
Next == \E c \in Classes : Extend(c)
Spec == Init /\ [][Next]_arr

\* what the match finders rely on: entries stay in 0..MaxPos, order is preserved, and for entries still inside the
\* window (p > off) the distance to any later position is unchanged: (q - off) - Norm(p) = q - p
Refines ==
  LET n == NormArr(arr) IN
  /\ \A i \in 1..Len(arr) : n[i] \in 0..MaxPos
  /\ \A i, j \in 1..Len(arr) : Val(arr[i]) <= Val(arr[j]) => n[i] <= n[j]
  /\ \A i \in 1..Len(arr) : Val(arr[i]) > Off => (MaxPos - Off) - n[i] = MaxPos - Val(arr[i])
  /\ \A i \in 1..Len(arr) : Val(arr[i]) <= Off => n[i] = 0

Emit == PrintT(<<"NORM", arr, NormArr(arr)>>)
=============================================================================
