------------------------- MODULE Trace_Lzma2Chunks -------------------------
(* Validation of real LZMA2Writer output against Lzma2Chunks. The emitted byte stream is the trace: the
   strict chunk walker of the harness (harness/src/strict.rs walk_lzma2) turns control bytes into

     Reset(id)  Chunk(kind, level)*  End(observed oracle fields)

   Shaped = TRUE : every chunk must be the image of EmitLzma / EmitUnc with exactly the control level the
                   writer model computes from its flags; start_independent_chunk is silent (not observable in
                   the bytes) and composed by TLC where needed.
   Shaped = FALSE: property-level invariants on the real chunk sequence and the observed oracle fields
                   (TVIOL lines, counted). *)
EXTENDS Lzma2Chunks, Json, IOUtils
CONSTANT Shaped
Rec == ndJsonDeserialize(IOEnv.TRACE)
VARIABLES l, obs, run
tvars == <<vars, l, obs, run>>
Ev == Rec[l]
Is(name) == l <= Len(Rec) /\ Ev.ev = name

TInit == Init /\ l = 1 /\ obs = <<>> /\ run = [id |-> "none", ended |-> FALSE] /\ TLCSet(1, 1) /\ TLCSet(3, 0)

Reset ==
  /\ Is("Reset")
  /\ dictReset' = ~HasPreset /\ stateReset' = TRUE /\ propsNeeded' = TRUE /\ force' = FALSE
  /\ encWinFresh' = TRUE /\ encOrigin' = 0 /\ encStateFresh' = TRUE
  /\ rNeedDict' = ~HasPreset /\ rNeedProps' = TRUE
  /\ decOrigin' = (IF HasPreset THEN 0 ELSE 99) /\ decInSync' = TRUE /\ rejected' = FALSE
  /\ out' = <<>> /\ units' = 0 /\ indepStarts' = 1 /\ finished' = FALSE
  /\ obs' = <<>> /\ run' = [id |-> Ev.id, ended |-> FALSE]

ChunkEv ==
  /\ Is("Chunk")
  /\ obs' = Append(obs, [kind |-> Ev.kind, level |-> Ev.level, props |-> Ev.props # 0 - 1]) /\ UNCHANGED run
  /\ IF Shaped
       THEN IF Ev.kind = "lzma" THEN LzmaLevel = Ev.level /\ EmitLzma
            ELSE dictReset = (Ev.level = 3) /\ EmitUnc
       ELSE UNCHANGED vars

EndEv == Is("End") /\ (IF Shaped THEN Finish ELSE UNCHANGED vars) /\ run' = [run EXCEPT !.ended = TRUE] /\ UNCHANGED obs

TNext == \/ (l' = l + 1 /\ (Reset \/ ChunkEv \/ EndEv))
         \/ (Shaped /\ l <= Len(Rec) /\ Ev.ev = "Chunk" /\ l' = l /\ StartIndependent /\ UNCHANGED <<obs, run>>)
TSpec == TInit /\ [][TNext]_tvars

AtEnd == l > 1 /\ Rec[l - 1].ev = "End" /\ run.ended
E == Rec[l - 1]
Viol(name) == PrintT(<<"TVIOL", name, run.id>>) /\ TLCSet(3, TLCGet(3) + 1)
\* C03: the chunk sequence is a valid LZMA2 stream (first chunk resets the dictionary, properties known ...)
TValid     == AtEnd => (ValidF(obs, HasPreset) \/ Viol("Valid"))
TRoundTrip == AtEnd => ((E.rt_ok /\ E.rt_equal) \/ Viol("RoundTrip"))
TRef       == AtEnd => ((E.ref_ok /\ E.ref_equal) \/ Viol("Ref"))
\* C16: exact chunk lengths - the reader stops right behind the end marker
TConsumed  == AtEnd => ((~E.rt_ok \/ E.consumed = E.stream_len) \/ Viol("Consumed"))
\* C18: for non-empty data LZMA2ReaderMT::chunk_count() = number of independent units (dictionary resets)
TUnits     == AtEnd => ((~E.mt_ok \/ E.input_len = 0 \/ E.mt_units = ResetCount(obs)) \/ Viol("Units"))

Track == (IF l > TLCGet(1) THEN TLCSet(1, l) ELSE TRUE)
Accepted ==
  /\ PrintT(<<"TRACE-REACHED", TLCGet(1) - 1, "OF", Len(Rec)>>)
  /\ PrintT(<<"TVIOL-COUNT", TLCGet(3)>>)
  /\ IF TLCGet(1) = Len(Rec) + 1 THEN TRUE
     ELSE Print(<<"REJECTED after event", TLCGet(1) - 1, "next", Rec[TLCGet(1)]>>, FALSE)
  /\ TLCGet(3) = 0
=============================================================================
