----------------------------- MODULE LzmaAlone -----------------------------
(* The expected-size contract of the .lzma (LZMA_Alone) writer, src/enc/lzma_writer.rs:
   LZMAWriter::new_use_header(out, options, Some(E) | None). With an expected size the 13-byte header
   carries E and no end marker is written; without, the header carries 2^64-1 and the stream ends with the
   end marker. write() rejects a buffer that would exceed E (and leaves the writer usable), finish() refuses
   to finish short of E. Sizes are abstract units.

   C18: "A .lzma writer given an expected size rejects writes beyond it, refuses to finish short of it, and
   the header carries exactly the number of bytes written." *)
EXTENDS Integers, Sequences, TLC

CONSTANTS Expecteds,   \* expected sizes explored; -1 = none
          Markers,     \* values of use_end_marker explored (LZMAWriter::new; new_use_header derives it from the size)
          Headers,     \* values of use_header explored
          WriteSizes,  \* sizes of write calls explored
          MaxCalls

VARIABLES exp, cur, calls, state, hdr, marker, header
vars == <<exp, cur, calls, state, hdr, marker, header>>

\* hdr: the size field of the 13-byte header (-1 = unknown, -2 = no header is written)
Init == /\ exp \in Expecteds /\ marker \in Markers /\ header \in Headers
        /\ cur = 0 /\ calls = <<>> /\ state = "open" /\ hdr = (IF header THEN exp ELSE -2)

Write(n) ==
  /\ state = "open" /\ Len(calls) < MaxCalls
  /\ LET over == exp # -1 /\ cur + n > exp IN
       /\ cur' = IF over THEN cur ELSE cur + n
       /\ calls' = Append(calls, [op |-> "w", n |-> n, ok |-> ~over])
  /\ UNCHANGED <<exp, state, hdr, marker, header>>

\* finish(self): the writer is consumed either way
Finish ==
  /\ state = "open"
  /\ LET short == exp # -1 /\ exp # cur IN
       /\ state' = IF short THEN "refused" ELSE "finished"
       /\ calls' = Append(calls, [op |-> "x", n |-> 0, ok |-> ~short])
  /\ UNCHANGED <<exp, cur, hdr, marker, header>>

Next == (\E n \in WriteSizes : Write(n)) \/ Finish
Spec == Init /\ [][Next]_vars

TypeOK == state \in {"open", "refused", "finished"} /\ cur >= 0
\* a finished file with a declared size holds exactly that many bytes; an overrun is never accepted
HeaderExact == (state = "finished" /\ header) => (hdr = -1 \/ hdr = cur)
NoOverrun   == exp # -1 => cur <= exp
\* finish succeeds exactly when nothing is missing - whether or not an end marker is written as well
ShortRefused == state = "refused" => (exp # -1 /\ cur < exp)
=============================================================================
