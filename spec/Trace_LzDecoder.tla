---------------------------- MODULE Trace_LzDecoder ----------------------------
(* Trace validation of the real LZDecoder (src/lz/lz_decoder.rs) against the scalar bookkeeping of LzRing.tla /
   LzDecoder.tla. NDJSON file named by the environment variable TRACE; one object per line, in program order:
     {"op":"new","B":n}                                  a reader was created (ring of n cells, everything 0)
     {"op":"reset","B":n}                                LZDecoder::reset
     {"op":"limit","n":out_max,"limit":l,"pos":p}        set_limit; LZMADecoder::decode follows (repeat_pending)
     {"op":"sym","lit":0|1,"len":n,"dist":d}             a decoded symbol (decoder-side Sym event): put_byte / repeat
     {"op":"unc","n":len,"copied":c,"pos":p,"full":f}    copy_uncompressed
     {"op":"flush","start","pos","full","limit","plen","pdist","copied"}   state AFTER flush, bytes delivered
   Every logged scalar must equal what the specification computes from the previous state; the invariants Ring
   (LimitRespected, bounds) hold in every reconstructed state. *)
EXTENDS LzRing, Sequences, TLC, Json, IOUtils

Rec == ndJsonDeserialize(IOEnv.TRACE)
VARIABLES l, Bv, start, pos, full, limit, pLen, pDist, dead
tvars == <<l, Bv, start, pos, full, limit, pLen, pDist, dead>>
Ev == Rec[l]
Is(op) == l <= Len(Rec) /\ Ev.op = op

TInit == l = 1 /\ Bv = 1 /\ start = 0 /\ pos = 0 /\ full = 0 /\ limit = 0 /\ pLen = 0 /\ pDist = 0 /\ dead = FALSE
         /\ TLCSet(1, 1)

New == /\ Is("new") /\ Bv' = Ev.B /\ start' = 0 /\ pos' = 0 /\ full' = 0 /\ limit' = 0 /\ pLen' = 0 /\ pDist' = 0
       /\ dead' = FALSE

Reset == /\ Is("reset") /\ Ev.B = Bv /\ start' = 0 /\ pos' = 0 /\ full' = 0 /\ limit' = 0
         /\ UNCHANGED <<Bv, pLen, pDist, dead>>

\* set_limit, then the repeat_pending at the top of LZMADecoder::decode
SetLimit ==
  /\ Is("limit") /\ ~dead /\ Ev.pos = pos
  /\ LET lim == LimitOf(Bv, pos, Ev.n) IN
     /\ Ev.limit = lim /\ limit' = lim
     /\ IF pLen > 0
          THEN LET r == RepeatScalars(Bv, pos, lim, full, pDist, pLen) IN
               pos' = r.pos /\ pLen' = r.pLen /\ pDist' = r.pDist /\ full' = r.full
          ELSE UNCHANGED <<pos, pLen, pDist, full>>
  /\ UNCHANGED <<Bv, start, dead>>

Lit == /\ Is("sym") /\ ~dead /\ Ev.lit = 1
       /\ pos < limit                                             \* has_space
       /\ pos' = pos + 1 /\ full' = Max(full, pos + 1)
       /\ UNCHANGED <<Bv, start, limit, pLen, pDist, dead>>

\* the symbol event is logged before lz.repeat(): a distance >= full (also the end marker, logged as -1) is
\* rejected without touching anything and ends decoding
Match == /\ Is("sym") /\ ~dead /\ Ev.lit = 0
         /\ pos < limit /\ pLen = 0
         /\ IF Ev.dist >= 0 /\ Ev.dist < full
              THEN LET r == RepeatScalars(Bv, pos, limit, full, Ev.dist, Ev.len) IN
                   pos' = r.pos /\ pLen' = r.pLen /\ pDist' = r.pDist /\ full' = r.full /\ UNCHANGED dead
              ELSE dead' = TRUE /\ UNCHANGED <<pos, pLen, pDist, full>>
         /\ UNCHANGED <<Bv, start, limit>>

Unc == /\ Is("unc") /\ ~dead
       /\ LET c == UncCopied(Bv, pos, Ev.n) IN
          /\ Ev.copied = c /\ pos' = pos + c /\ Ev.pos = pos + c /\ full' = Max(full, pos + c) /\ Ev.full = full'
       /\ UNCHANGED <<Bv, start, limit, pLen, pDist, dead>>

\* flush is still called after the end marker was rejected (LZMAReader); a reader that failed is not used again
Flush == /\ Is("flush")
         /\ LET f == FlushScalars(Bv, start, pos) IN
            /\ Ev.copied = f.copied /\ pos' = f.pos /\ start' = f.pos
            /\ Ev.pos = f.pos /\ Ev.start = f.pos
         /\ Ev.full = full /\ Ev.limit = limit /\ Ev.plen = pLen /\ (pLen > 0 => Ev.pdist = pDist)
         /\ UNCHANGED <<Bv, full, limit, pLen, pDist, dead>>

TNext == l' = l + 1 /\ (New \/ Reset \/ SetLimit \/ Lit \/ Match \/ Unc \/ Flush)
TSpec == TInit /\ [][TNext]_tvars

Ring == /\ pos <= Bv /\ start <= pos /\ full <= Bv /\ limit <= Bv
        /\ pLen > 0 => (pos = limit \/ pos = 0)    \* a match is pending only because the caller's buffer was full
                                                  \* (pos = 0: flushed at the end of the ring)
\* (LimitRespected is part of conformance: Lit / Match require has_space and RepeatScalars stops at the limit)

Track == (IF l > TLCGet(1) THEN TLCSet(1, l) ELSE TRUE)
Accepted ==
  /\ PrintT(<<"TRACE-REACHED", TLCGet(1) - 1, "OF", Len(Rec)>>)
  /\ IF TLCGet(1) = Len(Rec) + 1 THEN TRUE
     ELSE Print(<<"REJECTED after event", TLCGet(1) - 1, "next", Rec[TLCGet(1)]>>, FALSE)
=============================================================================
