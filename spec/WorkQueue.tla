------------------------------ MODULE WorkQueue ------------------------------
(* WorkStealingQueue (src/work_queue.rs) in isolation, for an UNBOUNDED number of pushes and queue length:
   one producer/closer (push* ; close) and the workers' steal() loop, at the same grain as MtReader/MtWriter.
   Queue content is abstracted to its length. Purpose: an inductive invariant (checked with Apalache) showing that
   no worker can be left asleep once close() has completed -- for every queue length and every number of steps. *)
EXTENDS Integers, FiniteSets

CONSTANTS
  \* @type: Set(Int);
  Workers,
  \* @type: Bool;
  CloseTakesLock    \* TRUE: close() stores `closed` while holding the queue mutex (the repaired code)

VARIABLES
  \* @type: Int;
  qlen,
  \* @type: Int;
  owner,        \* 0 = free, -1 = producer, w = worker
  \* @type: Set(Int);
  waiting,
  \* @type: Set(Int);
  notified,
  \* @type: Bool;
  closed,
  \* @type: Str;
  ppc,          \* producer: "idle", "plock" (push holds Q), "pnotify", "clock" (close holds Q), "cnotify", "done"
  \* @type: Int -> Str;
  wpc           \* worker: "lock", "chk", "wait", "sleep", "got", "none", "out"

vars == <<qlen, owner, waiting, notified, closed, ppc, wpc>>
P == -1

Init == /\ qlen = 0 /\ owner = 0 /\ waiting = {} /\ notified = {} /\ closed = FALSE /\ ppc = "idle"
        /\ wpc = [w \in Workers |-> "lock"]

\* ---- producer: push = (closed-load elided: producer is the only closer) Lock; push_back; Unlock; notify_one
PushLock == /\ ppc = "idle" /\ owner = 0 /\ owner' = P /\ qlen' = qlen + 1 /\ ppc' = "plock"
            /\ UNCHANGED <<waiting, notified, closed, wpc>>
PushUnlock == /\ ppc = "plock" /\ owner' = 0 /\ ppc' = "pnotify" /\ UNCHANGED <<qlen, waiting, notified, closed, wpc>>
PushNotify == /\ ppc = "pnotify" /\ ppc' = "idle"
              /\ \/ (waiting = {} /\ UNCHANGED <<waiting, notified>>)
                 \/ (\E w \in waiting : waiting' = waiting \ {w} /\ notified' = notified \union {w})
              /\ UNCHANGED <<qlen, owner, closed, wpc>>
\* ---- close (repaired): Lock; store closed; Unlock; notify_all
CloseLock == /\ ppc = "idle" /\ closed' = TRUE /\ ppc' = "clock"
             /\ IF CloseTakesLock THEN owner = 0 /\ owner' = P ELSE UNCHANGED owner
             /\ UNCHANGED <<qlen, waiting, notified, wpc>>
CloseUnlock == /\ ppc = "clock" /\ ppc' = "cnotify"
               /\ IF CloseTakesLock THEN owner' = 0 ELSE UNCHANGED owner
               /\ UNCHANGED <<qlen, waiting, notified, closed, wpc>>
CloseNotify == /\ ppc = "cnotify" /\ ppc' = "done" /\ notified' = notified \union waiting /\ waiting' = {}
               /\ UNCHANGED <<qlen, owner, closed, wpc>>

\* ---- worker steal(): Lock; loop { pop -> Some | closed -> None | wait }
WLock(w) == /\ wpc[w] = "lock" /\ owner = 0 /\ owner' = w
            /\ IF qlen > 0 THEN qlen' = qlen - 1 /\ wpc' = [wpc EXCEPT ![w] = "got"]
                           ELSE UNCHANGED qlen /\ wpc' = [wpc EXCEPT ![w] = "chk"]
            /\ UNCHANGED <<waiting, notified, closed, ppc>>
WChk(w) == /\ wpc[w] = "chk" /\ wpc' = [wpc EXCEPT ![w] = IF closed THEN "none" ELSE "wait"]
           /\ UNCHANGED <<qlen, owner, waiting, notified, closed, ppc>>
WWait(w) == /\ wpc[w] = "wait" /\ owner' = 0 /\ waiting' = waiting \union {w} /\ notified' = notified \ {w}
            /\ wpc' = [wpc EXCEPT ![w] = "sleep"] /\ UNCHANGED <<qlen, closed, ppc>>
WWake(w) == /\ wpc[w] = "sleep" /\ w \in notified /\ owner = 0 /\ owner' = w /\ notified' = notified \ {w}
            /\ IF qlen > 0 THEN qlen' = qlen - 1 /\ wpc' = [wpc EXCEPT ![w] = "got"]
                           ELSE UNCHANGED qlen /\ wpc' = [wpc EXCEPT ![w] = "chk"]
            /\ UNCHANGED <<waiting, closed, ppc>>
WGot(w) == /\ wpc[w] = "got" /\ owner' = 0 /\ wpc' = [wpc EXCEPT ![w] = "lock"]      \* process the unit, come back
           /\ UNCHANGED <<qlen, waiting, notified, closed, ppc>>
WNone(w) == /\ wpc[w] = "none" /\ owner' = 0 /\ wpc' = [wpc EXCEPT ![w] = "out"]
            /\ UNCHANGED <<qlen, waiting, notified, closed, ppc>>
Stutter == UNCHANGED vars

Next == \/ PushLock \/ PushUnlock \/ PushNotify \/ CloseLock \/ CloseUnlock \/ CloseNotify
        \/ (\E w \in Workers : WLock(w) \/ WChk(w) \/ WWait(w) \/ WWake(w) \/ WGot(w) \/ WNone(w))
        \/ Stutter

\* ---- the property: once close() has completed nobody sleeps without having been notified
NoLostWakeup == ppc = "done" => (waiting = {} /\ \A w \in Workers : wpc[w] = "sleep" => w \in notified)

\* ---- inductive invariant
PPcs == {"idle", "plock", "pnotify", "clock", "cnotify", "done"}
WPcs == {"lock", "chk", "wait", "sleep", "got", "none", "out"}
Holders == {w \in Workers : wpc[w] \in {"chk", "wait", "got", "none"}}
IndInv ==
  /\ qlen >= 0 /\ owner \in Workers \union {0, P} /\ waiting \subseteq Workers /\ notified \subseteq Workers
  /\ ppc \in PPcs /\ wpc \in [Workers -> WPcs]
  \* mutual exclusion and who holds the mutex
  /\ (owner = P) <=> (ppc = "plock" \/ (CloseTakesLock /\ ppc = "clock"))
  /\ \A w \in Workers : (owner = w) <=> (w \in Holders)
  \* closed changes only in close(), under the mutex
  /\ closed <=> (ppc \in {"clock", "cnotify", "done"})
  \* a worker about to wait has seen closed = FALSE while holding the mutex, so close() has not stored yet
  /\ \A w \in Workers : wpc[w] = "wait" => ~closed
  /\ \A w \in Workers : wpc[w] = "none" => closed
  \* sleepers are exactly the waiting or notified ones
  /\ \A w \in Workers : wpc[w] = "sleep" <=> (w \in waiting \/ w \in notified)
  /\ waiting \intersect notified = {}
  /\ NoLostWakeup

\* initial predicate for the inductive step (any state satisfying the invariant)
IndInit == /\ qlen \in Nat /\ owner \in Workers \union {0, P} /\ waiting \in SUBSET Workers
           /\ notified \in SUBSET Workers /\ closed \in BOOLEAN /\ ppc \in PPcs /\ wpc \in [Workers -> WPcs]
           /\ IndInv
ConstInit == Workers = {1, 2, 3} /\ CloseTakesLock = TRUE
ConstInitRegressed == Workers = {1, 2, 3} /\ CloseTakesLock = FALSE
=============================================================================
