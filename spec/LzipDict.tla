----------------------------- MODULE LzipDict -----------------------------
(* The LZIP dictionary-size byte: src/lzip.rs encode_dict_size / decode_dict_size transcribed.
   Bits 4-0 hold the base-2 logarithm of the base size (12..29), bits 7-5 the number of sixteenths of the
   base size to subtract. The header must declare a dictionary at least as large as the one the encoder
   searched (LZIPWriter clamps the option to 4 KiB..512 MiB first).

   Variant constant:
     DictByteRoundsUp  FALSE: the fraction to subtract is rounded up (div_ceil), i.e. the size written into
                              the header is rounded *down* and can be smaller than the dictionary the
                              encoder used (D4)                                          -> TRUE *)
EXTENDS Integers, Sequences, FiniteSets, TLC
CONSTANT DictByteRoundsUp

Pow2(n) == 2 ^ n
MinD == 4096
MaxD == 512 * 1024 * 1024
Max(a, b) == IF a > b THEN a ELSE b
Min(a, b) == IF a < b THEN a ELSE b
Clamp(d) == Max(MinD, Min(MaxD, d))            \* LZIPWriter::new

\* ---------------------------------------------------------------------------------------- dictionary-size byte
RECURSIVE Log2Up(_, _)
Log2Up(d, b) == IF Pow2(b) >= d THEN b ELSE Log2Up(d, b + 1)     \* smallest b >= 12 with 2^b >= d
DivCeil(a, b) == (a + b - 1) \div b

\* encode_dict_size: <<base_log2, fraction>>
Encode(d) ==
  LET b    == Log2Up(d, 12)
      base == Pow2(b)
      unit == base \div 16
      diff == base - d
      f    == IF diff = 0 THEN 0 ELSE IF DictByteRoundsUp THEN diff \div unit ELSE DivCeil(diff, unit)
  IN IF f > 7 THEN <<b + 1, 0>> ELSE <<b, f>>
EncodeByte(d) == Encode(d)[2] * 32 + Encode(d)[1]
\* decode_dict_size (0 = rejected)
DecodeByte(x) ==
  LET b == x % 32
      f == x \div 32
      v == Pow2(b) - (Pow2(b) \div 16) * f
  IN IF b < 12 \/ b > 29 \/ v < MinD \/ v > MaxD THEN 0 ELSE v
Decode(e) == DecodeByte(e[2] * 32 + e[1])

\* every boundary of the representable grid, +-1, within 4 KiB .. 512 MiB
BoundarySizes == { d \in { Pow2(b) - k * (Pow2(b) \div 16) + delta - 1 : b \in 12..29, k \in 0..7, delta \in 0..2 } :
                   d >= MinD /\ d <= MaxD }
Representable == { Pow2(b) - k * (Pow2(b) \div 16) : b \in 12..29, k \in 0..7 } \cap (MinD..MaxD)

\* the header value covers the dictionary the encoder searched (the decoder's window is large enough)
Covers(d) == Decode(Encode(d)) >= d
InRange(d) == Encode(d)[1] \in 12..29 /\ Encode(d)[2] \in 0..7
\* ... and is the smallest representable size that does
Minimal(d) == \A v \in Representable : v >= d => v >= Decode(Encode(d))
DictByteOk == \A d \in BoundarySizes : Covers(d) /\ InRange(d) /\ Minimal(d)
\* first size for which Covers fails (0 = none): exported for the conformance probe
FirstUncovered == IF \A d \in BoundarySizes : Covers(d) THEN 0
                  ELSE CHOOSE d \in BoundarySizes : ~Covers(d) /\ \A e \in BoundarySizes : e < d => Covers(e)
=============================================================================
