---------------------------- MODULE LzipDictMC ----------------------------
(* One state per boundary size of the representable grid (409 sizes between 4 KiB and 512 MiB, every
   base/fraction boundary +-1): Covers / InRange / Minimal are checked as invariants, so that a counter-
   example names the first size for which the header under-declares the dictionary. *)
EXTENDS LzipDict
VARIABLE d
Init == d \in BoundarySizes
Next == UNCHANGED d
Spec == Init /\ [][Next]_d
CoversInv == Covers(d)
InRangeInv == InRange(d)
MinimalInv == Minimal(d)
\* decode(byte) agrees with the grid for every byte value (0 = rejected)
DecodeTotal == \A x \in 0..255 : DecodeByte(x) = 0 \/ DecodeByte(x) \in Representable
=============================================================================
