--------------------------- MODULE Trace_EncWindow ---------------------------
(* Trace validation of the real LZMA2Writer / LZMAWriter + LZEncoder against EncWindow, instantiated
   with the REAL constants of the run (dictionary size, mode extras, match-finder requirements ...).
   The NDJSON file named by the environment variable TRACE holds the window events of hook H3
   (src/verif_win.rs, converted by harness/src/codec.rs) interleaved with the API calls the harness
   made:  A{call,n}  New{dict,kb,ka,bs}  Preset  Fill{rp,rl,wp,pe,len,mv,inp}  Flush / Finish{rp,rl,wp,pe}
          Enc{n,len,ra,rp,pe,un} (run of symbols)  Sym{len,ra,rp,pe,un}  Chunk{un,raw,rp}.
   Every event must be the image of one action of EncWindow with the logged values bound; encoder
   stalls are silent steps. Runs are concatenated with {"ev":"Reset"} lines. *)
EXTENDS EncWindow, Json, IOUtils
Rec == ndJsonDeserialize(IOEnv.TRACE)
VARIABLE l
tvars == <<vars, l>>
Ev == Rec[l]
Is(e) == l <= Len(Rec) /\ Ev.ev = e
TInit == Init /\ l = 1 /\ TLCSet(1, 1)

Post == readPos' = Ev.rp /\ readLimit' = Ev.rl /\ writePos' = Ev.wp /\ pending' = Ev.pe
ConstsOk == Ev.dict = Dict /\ Ev.kb = KeepBefore /\ Ev.ka = KeepAfter /\ Ev.bs = BufSize /\ Ev.mm = MatchMax

TReset == Is("Reset") /\ ResetAll
TNew == Is("New") /\ ConstsOk
        /\ \/ (pc = "idle" /\ total = 0 /\ UNCHANGED vars)
           \/ IndepNew
TPreset == Is("Preset") /\ pc = "idle" /\ total = 0 /\ Ev.n = PresetLen
           /\ readPos = Ev.rp /\ writePos = Ev.wp /\ pending = Ev.pe /\ UNCHANGED vars
TApi == Is("A") /\ \/ (Ev.call = "write" /\ CallWrite(Ev.n))
                   \/ (Ev.call \in {"flush", "finish"} /\ pc = "idle" /\ UNCHANGED vars)
TFill == Is("Fill") /\ Ev.inp = left
         /\ (Fill \/ FillNew)
         /\ Post /\ left' = left - Ev.len /\ base' = base + Max(Ev.mv, 0)
TFlush == Is("Flush") /\ (CallFlush(FALSE) \/ StartIndep) /\ Post
TFinish == Is("Finish") /\ CallFlush(TRUE) /\ Post
TEnc == Is("Enc") /\ EncodeRunP(Ev.n, Ev.len, Ev.ra)
        /\ readPos' = Ev.rp /\ pending' = Ev.pe /\ uncomp' = Ev.un /\ writePos = Ev.wp
TSym == Is("Sym") /\ EncodeP(Ev.len, Ev.ra)
        /\ readPos' = Ev.rp /\ pending' = Ev.pe /\ uncomp' = Ev.un /\ writePos = Ev.wp
TChunk == Is("Chunk") /\ readPos = Ev.rp
          /\ \/ (Ev.raw = 0 /\ uncomp = Ev.un /\ ChunkClose("lzma"))
             \/ (Ev.raw = 1 /\ uncomp + readAhead + 1 = Ev.un /\ ChunkClose("raw"))

TNext ==
  \/ (l' = l + 1 /\ (TReset \/ TNew \/ TPreset \/ TApi \/ TFill \/ TFlush \/ TFinish \/ TEnc \/ TSym \/ TChunk))
  \/ (l' = l /\ (EncodeStall \/ Finish1Done))
TSpec == TInit /\ [][TNext]_tvars

\* highest trace position reached: register 1 (workers = 1)
Track == (IF l > TLCGet(1) THEN TLCSet(1, l) ELSE TRUE)
Accepted ==
  /\ PrintT(<<"TRACE-REACHED", TLCGet(1) - 1, "OF", Len(Rec)>>)
  /\ IF TLCGet(1) = Len(Rec) + 1 THEN TRUE
     ELSE Print(<<"REJECTED after event", TLCGet(1) - 1, "next", Rec[TLCGet(1)]>>, FALSE)
=============================================================================
