---------------------------- MODULE RangeCoderLimbEq ----------------------------
(* Equivalence of the limb formulation (RangeCoderLimb.tla, LB = RangeBits / 2) with the integer formulation of
   RangeCoder.tla, checked in every reachable state of RangeCoder's script exploration (reduced width) and on the
   decoder states met while decoding the finished stream. *)
EXTENDS RangeCoder

L == INSTANCE RangeCoderLimb WITH LB <- RangeBits \div 2

Half == Pow2(RangeBits \div 2)
ToL2(x) == << x \div Half, x % Half >>
ToL3(x) == << x \div (Half * Half), (x \div Half) % Half, x % Half >>
EncToL(e) == [low |-> ToL3(e.low), range |-> ToL2(e.range), cache |-> e.cache, cacheSize |-> e.cacheSize, out |-> e.out]
DecToL(d) == [code |-> ToL2(d.code), range |-> ToL2(d.range), pos |-> d.pos]

\* encoder: every operation applied in the current state
EncLimbAgree ==
  /\ EncToL(Enc0) = L!LEnc0
  /\ \A c \in 1..NCtx, b \in 0..1 : EncToL(EncodeBit(enc, eprobs[c], b)) = L!LEncodeBit(EncToL(enc), eprobs[c], b)
  /\ \A b \in 0..1 : EncToL(EncodeDirect(enc, b, 1)) = L!LEncodeDirectBit(EncToL(enc), b)
  /\ EncToL(Finish(enc)) = L!LFinish(EncToL(enc))
  /\ \A c \in 1..NCtx, b \in 0..1 : EncProb(eprobs[c], b) = L!LEncProb(eprobs[c], b) /\ DecProb(eprobs[c], b) = L!LDecProb(eprobs[c], b)

\* decoder: walk the script over the finished stream, compare both formulations step by step (also on a stream cut
\* short, so that past-the-end reads are covered)
RECURSIVE DecWalk(_, _, _, _)
DecWalk(d, buf, probs, ops) ==
  IF ops = <<>> THEN DecToL(Normalize(d, buf)) = L!LNormalize(DecToL(d), buf)
  ELSE LET op == Head(ops) IN
       IF op[1] = "b"
         THEN LET r == DecodeBit(d, buf, probs[op[2]])
                  lr == L!LDecodeBit(DecToL(d), buf, probs[op[2]])
              IN /\ DecToL(r[1]) = lr[1] /\ r[2] = lr[2]
                 /\ DecWalk(r[1], buf, [probs EXCEPT ![op[2]] = DecProb(probs[op[2]], r[2])], Tail(ops))
         ELSE LET r == PortableDirect(d, buf, 1, 0)
                  lr == L!LDecodeDirectBit(DecToL(d), buf)
              IN /\ DecToL(r[1]) = lr[1] /\ r[2] = lr[2]
                 /\ DecWalk(r[1], buf, probs, IF op[2] = 1 THEN Tail(ops) ELSE << <<"d", op[2] - 1, 0>> >> \o Tail(ops))
DecLimbAgree == \A k \in Cuts : DecWalk(Dec0(Stream), CutBuf(k), P0, script)
=============================================================================
