--------------------------- MODULE Trace_XzReader ---------------------------
(* Validation of the real XZReader against the reader half of XzContainer on arbitrary inputs (files written
   by the crate, by liblzma, assembled by the forge, concatenated, padded, followed by other bytes):

     Reset(id, multi)  Rec(record)*  End(outcome, out_len, ...)

   The Rec events are the strict parser's records of the *input*; they become the variable `file`. The
   reader actions RHeader / RBlock / RIndex / RScan then run as silent steps, and the End event must carry
   the outcome ("eof" / "err") and the number of bytes the model's reader delivers. The input side is also
   judged at property level: an input that claims to be valid (E.valid) must satisfy WellFormedF - this is
   the cross-check of the strict parser and the forge against files produced by liblzma. *)
EXTENDS XzContainer, Json, IOUtils
Rec == ndJsonDeserialize(IOEnv.TRACE)
VARIABLES l, run
tvars == <<vars, l, run>>
Ev == Rec[l]
Is(name) == l <= Len(Rec) /\ Ev.ev = name

TInit == InitWith([check |-> 0, limit |-> 0, dict |-> 0, hsize |-> 12, cz |-> <<>>]) /\ l = 1
         /\ run = [id |-> "none", ended |-> FALSE] /\ TLCSet(1, 1) /\ TLCSet(3, 0)

Reset ==
  /\ Is("Reset")
  /\ file' = <<>> /\ phase' = "read" /\ rd' = [RD0 EXCEPT !.st = "hdr", !.multi = Ev.multi]
  /\ run' = [id |-> Ev.id, ended |-> FALSE]
  /\ UNCHANGED <<cfg, ws, calls, streams, pads, trail>>

\* records are collected before the reader starts (rd.pos = 1, st = "hdr")
RecEv == /\ Is("Rec") /\ rd.st = "hdr" /\ file' = Append(file, Ev)
         /\ UNCHANGED <<cfg, ws, calls, streams, pads, trail, phase, rd, run>>

Started == l <= Len(Rec) /\ Ev.ev = "End"       \* all records are in: the reader may run
EndEv ==
  /\ Is("End") /\ rd.st = Ev.outcome
  /\ (Ev.outcome = "eof" => rd.out = Ev.out_len)
  /\ run' = [run EXCEPT !.ended = TRUE] /\ UNCHANGED vars

TNext == \/ (l' = l + 1 /\ (Reset \/ RecEv \/ EndEv))
         \/ (Started /\ l' = l /\ (RHeader \/ RBlock \/ RIndex \/ RScan) /\ UNCHANGED run)
TSpec == TInit /\ [][TNext]_tvars

AtEnd == l > 1 /\ Rec[l - 1].ev = "End" /\ run.ended
E == Rec[l - 1]
Viol(name) == PrintT(<<"TVIOL", name, run.id>>) /\ TLCSet(3, TLCGet(3) + 1)
\* an input assembled from complete valid streams and well-formed padding is well-formed by the format rules
TInputWellFormed == AtEnd => ((~E.valid \/ WellFormedF(file)) \/ Viol("InputWellFormed"))

Track == (IF l > TLCGet(1) THEN TLCSet(1, l) ELSE TRUE)
Accepted ==
  /\ PrintT(<<"TRACE-REACHED", TLCGet(1) - 1, "OF", Len(Rec)>>)
  /\ PrintT(<<"TVIOL-COUNT", TLCGet(3)>>)
  /\ IF TLCGet(1) = Len(Rec) + 1 THEN TRUE
     ELSE Print(<<"REJECTED after event", TLCGet(1) - 1, "next", Rec[TLCGet(1)]>>, FALSE)
  /\ TLCGet(3) = 0
=============================================================================
