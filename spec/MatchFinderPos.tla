--------------------------- MODULE MatchFinderPos ---------------------------
(* Match-finder positions in a signed machine word and their renormalisation.

   Transcription of src/lz/hc4.rs / bt4.rs move_pos (lz_pos += 1; at MaxPos: normalize every table
   with offset MaxPos - cyclic_size, lz_pos -= offset), src/lz/hash234.rs normalize, and
   src/lz/lz_encoder.rs LZEncoder::normalize / normalize_scalar / normalize_avx2 / _sse41 / _neon,
   plus what find_matches does with an entry: delta = lz_pos - entry, candidate iff delta < cyclic_size.
   The word width is scaled (W bits, MaxPos = 2^(W-1) - 1); a table is a few slots, each paired with
   the ghost absolute stream index it was written at.

   Norm is the one definition every normalisation variant must refine (C14). Variant constant
   NormKind: "max0" = max(p - off, 0) (the SIMD variants, XZ for Java, liblzma),
             "sat"  = signed saturating subtraction (normalize_scalar as found: entries below the
                      offset - in particular never-written zero entries - become negative). *)
EXTENDS Integers, TLC
CONSTANTS W, Dict, Slots, Steps, NormKind,
          MaxAge     \* largest ageing step of the verification hook (0 = none)

MaxPos == 2^(W-1) - 1
MinPos == -(2^(W-1))
Cyc == Dict + 1                                        \* cyclic_size
Wrap(x) == ((x - MinPos) % (2^W)) + MinPos            \* two's-complement wrap-around
NormMax0(p, off) == IF p - off > 0 THEN p - off ELSE 0
NormSat(p, off) == IF p - off < MinPos THEN MinPos ELSE p - off
Norm(p, off) == IF NormKind = "max0" THEN NormMax0(p, off) ELSE NormSat(p, off)
Never == -1

VARIABLES lzPos, abs, e, ghost, n, norms
vars == <<lzPos, abs, e, ghost, n, norms>>
Init == /\ lzPos = Cyc /\ abs = 0 /\ e = [s \in Slots |-> 0] /\ ghost = [s \in Slots |-> Never]
        /\ n = 0 /\ norms = 0

\* move_pos, then optionally record the position in a slot (hash tables update_tables / chain or tree store)
Advance(store, s) ==
  /\ n < Steps /\ n' = n + 1 /\ abs' = abs + 1
  /\ LET p1 == lzPos + 1 IN
     IF p1 = MaxPos
       THEN LET off == MaxPos - Cyc
                pn == p1 - off
            IN /\ lzPos' = pn /\ norms' = norms + 1
               /\ e' = [t \in Slots |-> IF store /\ t = s THEN pn ELSE Norm(e[t], off)]
       ELSE /\ lzPos' = p1 /\ norms' = norms
            /\ e' = IF store THEN [e EXCEPT ![s] = p1] ELSE e
  /\ ghost' = IF store THEN [ghost EXCEPT ![s] = abs + 1] ELSE ghost

\* verification hook (src/verif_win.rs apply_age): lz_pos advances by d without touching the tables, as if d
\* positions had been processed whose entries were all overwritten / left the dictionary; never reaches MaxPos itself
Age(d) ==
  /\ n < Steps /\ d >= 1 /\ lzPos + d <= MaxPos - 2
  /\ lzPos' = lzPos + d /\ abs' = abs + d /\ n' = n + 1
  /\ UNCHANGED <<e, ghost, norms>>

Next == \/ \E s \in Slots : Advance(TRUE, s) \/ Advance(FALSE, s)
        \/ \E d \in 1..MaxAge : Age(d)
Spec == Init /\ [][Next]_vars

\* what find_matches does with a table entry
Delta(s) == Wrap(lzPos - e[s])
\* every candidate the match finder accepts is at its true stream distance (else: wrong match source)
DeltaIsTrueDistance == \A s \in Slots : Delta(s) < Cyc => (Delta(s) >= 0 /\ ghost[s] # Never /\ abs - ghost[s] = Delta(s))
\* lz_pos - entry does not leave the word (builds with overflow checks panic on the plain subtraction)
NoOverflow == \A s \in Slots : lzPos - e[s] <= MaxPos /\ lzPos - e[s] >= MinPos
EntriesNonNegative == \A s \in Slots : e[s] >= 0
TwoNorms == norms < 2          \* witness: must be violated (two renormalisations are reachable)
=============================================================================
