---------------------------- MODULE RangeCoder ----------------------------
(* Range coder of lzma-rust2 with the word widths as constants, transcribed from
     src/enc/range_enc.rs  shift_low, encode_bit, encode_direct_bits, finish, get_pending_size
     src/range_dec.rs      new_stream / prepare, normalize, decode_bit, decode_direct_bits (portable loop and the
                           assembly variants), RangeDecoderBuffer::read_u8, is_finished
   and model-checked at reduced width (e.g. 8-bit range, 2-bit "bytes", 3-bit probabilities). The real widths are
   RangeBits = 32, ShiftBits = 8, ModelBits = 11, MoveBits = 5.

   The encoder runs over every script of at most MaxBits bits (model bits in NCtx contexts, direct-bit runs of up to
   MaxDirect bits); in every reached state the stream is finished (5 = RangeBits/ShiftBits + 1 flush shifts) and
   decoded again by operators:
     RoundTrip         Decode(Encode(s)) = s
     BytesAccounted    bytes pulled by the decoder incl. the final lazy normalisation = bytes pushed, code = 0
                       (is_finished / C16)
     PendingSizeExact  get_pending_size() = length of the finished stream
     PosAccounting     after a direct-bit run on a chunk buffer cut short by up to MaxCut bytes (corrupt LZMA2 chunk)
     PastEndReadsZero  the assembly-shaped variant and the portable loop agree on buffer position / is_finished and
                       on result, code, range: both read 0 beyond the end of the buffer and keep counting.
   AsmClamp = TRUE is the design found at the pinned commit (defect D19): the assembly clamps the read index to the
   last buffer byte (re-reading it) and clamps the position to the buffer length. *)
EXTENDS Integers, Sequences, TLC

CONSTANTS ShiftBits, RangeBits, ModelBits, MoveBits,
          MaxBits, NCtx, MaxDirect,
          AsmClamp,      \* TRUE: clamped index + clamped position (as found); FALSE: reads 0, keeps counting
          MaxCut         \* how many trailing payload bytes a corrupt chunk may lack

Pow2(n) == 2 ^ n
Digit   == Pow2(ShiftBits)                    \* size of the byte alphabet
Top     == Pow2(RangeBits - ShiftBits)        \* TOP_VALUE: normalise when range < Top
Word    == Pow2(RangeBits)                    \* 2^32
RMax    == Word - 1                           \* 0xFFFFFFFF
Total   == Pow2(ModelBits)                    \* BIT_MODEL_TOTAL
PInit   == Total \div 2
NInit   == RangeBits \div ShiftBits + 1       \* 5: flush shifts / init bytes
RegW    == Pow2(RangeBits + 4)                \* width of the u32 temporaries of the probability update (scaled)
ProbW   == Pow2(ModelBits + 3)                \* width of a probability cell (u16, scaled)

Min(a, b) == IF a < b THEN a ELSE b

\* ---------------------------------------------------------------- encoder (range_enc.rs)
Enc0 == [low |-> 0, range |-> RMax, cache |-> 0, cacheSize |-> 1, out |-> <<>>]

\* shift_low
ShiftLow(e) ==
  LET lowHi == e.low \div Word
      flushNow == lowHi # 0 \/ e.low < Word - Top                     \* low < 0xFF000000
      out1 == IF flushNow
                THEN e.out \o <<(e.cache + lowHi) % Digit>>
                           \o [i \in 1..(e.cacheSize - 1) |-> (Digit - 1 + lowHi) % Digit]
                ELSE e.out
      cache1 == IF flushNow THEN (e.low \div Top) % Digit ELSE e.cache
      cs1 == IF flushNow THEN 0 ELSE e.cacheSize
  IN [e EXCEPT !.out = out1, !.cache = cache1, !.cacheSize = cs1 + 1, !.low = (e.low % Top) * Digit]

\* the tail of encode_bit / encode_direct_bits: if range & TOP_MASK == 0 { range <<= SHIFT_BITS; shift_low() }
EncNorm(e) == IF e.range < Top THEN ShiftLow([e EXCEPT !.range = e.range * Digit]) ELSE e

EncProb(p, bit) == IF bit = 0 THEN p + ((Total - p) \div Pow2(MoveBits)) ELSE p - (p \div Pow2(MoveBits))

EncodeBit(e, p, bit) ==
  LET bound == (e.range \div Total) * p
  IN EncNorm(IF bit = 0 THEN [e EXCEPT !.range = bound]
             ELSE [e EXCEPT !.low = e.low + bound, !.range = e.range - bound])

RECURSIVE EncodeDirect(_, _, _)
\* encode_direct_bits(value, count): most significant bit first
EncodeDirect(e, value, count) ==
  IF count = 0 THEN e
  ELSE LET r1 == e.range \div 2
           b  == (value \div Pow2(count - 1)) % 2
           e1 == [e EXCEPT !.range = r1, !.low = e.low + (IF b = 1 THEN r1 ELSE 0)]
       IN EncodeDirect(EncNorm(e1), value, count - 1)

RECURSIVE Flush(_, _)
Flush(e, k) == IF k = 0 THEN e ELSE Flush(ShiftLow(e), k - 1)
Finish(e) == Flush(e, NInit)                                            \* finish(): 5 x shift_low
PendingSize(e) == Len(e.out) + e.cacheSize + NInit - 1                  \* get_pending_size

\* ---------------------------------------------------------------- decoder (range_dec.rs)
\* RangeDecoderBuffer::read_u8: out of bounds reads return 0, the position keeps counting
ReadByte(buf, pos) == IF pos < Len(buf) THEN buf[pos + 1] ELSE 0

\* prepare(): first byte must be 0, code = next NInit-1 bytes big endian; the payload buffer is the rest
RECURSIVE BE(_, _, _)
BE(s, i, n) == IF n = 0 THEN 0 ELSE BE(s, i, n - 1) * Digit + s[i + n - 1]
Dec0(stream) == [code |-> BE(stream, 2, NInit - 1), range |-> RMax, pos |-> 0]
Payload(stream) == SubSeq(stream, NInit + 1, Len(stream))

Normalize(d, buf) ==
  IF d.range < Top
    THEN [d EXCEPT !.code = (((d.code * Digit) % Word) + ReadByte(buf, d.pos)) % Word,    \* (code << 8) | b
                   !.range = (d.range * Digit) % Word, !.pos = d.pos + 1]
    ELSE d

\* probability update of decode_bit: p - ((p + (RC_BIT_MODEL_OFFSET & !mask)) >> MOVE_BITS) in wrapping u32, stored as u16
DecProb(p, bit) ==
  LET offset == IF bit = 0 THEN (Pow2(MoveBits) - 1 - Total) % RegW ELSE 0
      t == ((p + offset) % RegW) \div Pow2(MoveBits)
  IN ((p - t) % RegW) % ProbW

\* decode_bit: returns <<decoder, bit>>
DecodeBit(d0, buf, p) ==
  LET d == Normalize(d0, buf)
      bound == (d.range \div Total) * p
  IN IF d.code >= bound
       THEN << [d EXCEPT !.range = d.range - bound, !.code = d.code - bound], 1 >>
       ELSE << [d EXCEPT !.range = bound], 0 >>

\* one bit of the direct-bit loops after normalisation: range >>= 1; t = (code - range) >> 31 (sign bit);
\* code -= range & (t - 1); bit = 1 - t
DirectStep(d) ==
  LET r1 == d.range \div 2
      t  == ((d.code - r1) % Word) \div (Word \div 2)
  IN << [d EXCEPT !.range = r1, !.code = IF t = 0 THEN d.code - r1 ELSE d.code], 1 - t >>

RECURSIVE PortableDirect(_, _, _, _)
\* portable loop of decode_direct_bits: returns <<decoder, value>>
PortableDirect(d, buf, count, acc) ==
  IF count = 0 THEN <<d, acc>>
  ELSE LET s == DirectStep(Normalize(d, buf))
       IN PortableDirect(s[1], buf, count - 1, acc * 2 + s[2])

RECURSIVE AsmLoop(_, _, _, _)
\* decode_direct_bits_x86_64 / _aarch64: per bit - normalise with a clamped read index, then the same step
AsmLoop(d, buf, count, acc) ==
  IF count = 0 THEN <<d, acc>>
  ELSE LET limit == Len(buf) - 1
           cp == IF d.pos > limit THEN limit ELSE d.pos
           byte == IF AsmClamp THEN buf[cp + 1]                                  \* re-reads the last byte
                   ELSE (IF d.pos > limit THEN 0 ELSE buf[cp + 1])               \* reads 0 beyond the end
           dn == IF d.range < Top
                   THEN [d EXCEPT !.code = (((d.code * Digit) % Word) + byte) % Word,
                                  !.range = (d.range * Digit) % Word, !.pos = d.pos + 1]
                   ELSE d
           s == DirectStep(dn)
       IN AsmLoop(s[1], buf, count - 1, acc * 2 + s[2])
AsmDirect(d, buf, count) ==
  LET r == AsmLoop(d, buf, count, 0)
  IN IF AsmClamp THEN << [r[1] EXCEPT !.pos = Min(r[1].pos, Len(buf))], r[2] >> ELSE r   \* set_pos(pos.min(len))

IsFinished(d, buf) == d.pos = Len(buf) /\ d.code = 0

\* ---------------------------------------------------------------- scripts
\* op = <<"b", ctx, bit>> | <<"d", count, value>>
OpBits(op) == IF op[1] = "b" THEN 1 ELSE op[2]

VARIABLES enc, eprobs, script, nbits
vars == <<enc, eprobs, script, nbits>>

Init == enc = Enc0 /\ eprobs = [c \in 1..NCtx |-> PInit] /\ script = <<>> /\ nbits = 0

EncBit(c, b) ==
  /\ nbits + 1 <= MaxBits
  /\ enc' = EncodeBit(enc, eprobs[c], b)
  /\ eprobs' = [eprobs EXCEPT ![c] = EncProb(eprobs[c], b)]
  /\ script' = Append(script, <<"b", c, b>>) /\ nbits' = nbits + 1

EncDirect(count, v) ==
  /\ nbits + count <= MaxBits
  /\ enc' = EncodeDirect(enc, v, count)
  /\ script' = Append(script, <<"d", count, v>>) /\ nbits' = nbits + count /\ UNCHANGED eprobs

Next == \/ \E c \in 1..NCtx, b \in 0..1 : EncBit(c, b)
        \/ \E count \in 1..MaxDirect : \E v \in 0..(Pow2(count) - 1) : EncDirect(count, v)
Spec == Init /\ [][Next]_vars

\* ---------------------------------------------------------------- decoding a finished stream with the script's op kinds
RECURSIVE DecodeRun(_, _, _, _, _)
\* returns [d, probs, ops] where ops is the decoded script (same op kinds, decoded bits / values)
DecodeRun(d, buf, probs, ops, acc) ==
  IF ops = <<>> THEN [d |-> d, probs |-> probs, ops |-> acc]
  ELSE LET op == Head(ops) IN
       IF op[1] = "b"
         THEN LET r == DecodeBit(d, buf, probs[op[2]])
              IN DecodeRun(r[1], buf, [probs EXCEPT ![op[2]] = DecProb(probs[op[2]], r[2])], Tail(ops),
                           Append(acc, <<"b", op[2], r[2]>>))
         ELSE LET r == PortableDirect(d, buf, op[2], 0)
              IN DecodeRun(r[1], buf, probs, Tail(ops), Append(acc, <<"d", op[2], r[2]>>))

Stream == Finish(enc).out
P0 == [c \in 1..NCtx |-> PInit]
Decoded == DecodeRun(Dec0(Stream), Payload(Stream), P0, script, <<>>)

RoundTrip == /\ Stream[1] = 0                                 \* "range decoder first byte is not zero"
             /\ Decoded.ops = script
             /\ Decoded.probs = eprobs                         \* both probability updates agree

\* final lazy normalisation (LZMADecoder::decode ends with rc.normalize()): everything pushed has been pulled
BytesAccounted ==
  LET d == Normalize(Decoded.d, Payload(Stream))
  IN /\ d.pos = Len(Payload(Stream))                           \* BytesPulled = BytesPushed
     /\ IsFinished(d, Payload(Stream))                         \* and the code register is 0
     /\ d.pos + NInit = Len(Stream)

PendingSizeExact == PendingSize(enc) = Len(Stream)

\* ---------------------------------------------------------------- direct bits at and beyond the end of the buffer
RECURSIVE DirectAgree(_, _, _, _, _)
\* walks the script's ops over `buf` with the portable decoder; at every direct-bit run compares the variants.
\* what = "pos": position and is_finished; "val": result, code, range; "both"
DirectAgree(d, buf, probs, ops, what) ==
  IF ops = <<>> THEN TRUE
  ELSE LET op == Head(ops) IN
       IF op[1] = "b"
         THEN LET r == DecodeBit(d, buf, probs[op[2]])
              IN DirectAgree(r[1], buf, [probs EXCEPT ![op[2]] = DecProb(probs[op[2]], r[2])], Tail(ops), what)
         ELSE LET p == PortableDirect(d, buf, op[2], 0)
                  a == AsmDirect(d, buf, op[2])
                  samePos == a[1].pos = p[1].pos /\ IsFinished(a[1], buf) = IsFinished(p[1], buf)
                  sameVal == a[2] = p[2] /\ a[1].code = p[1].code /\ a[1].range = p[1].range
                  same == CASE what = "pos" -> samePos [] what = "val" -> sameVal [] OTHER -> samePos /\ sameVal
              IN \* on disagreement print the abstract class of the decoder state (replayed on the real code by C14):
                 \* position agrees, value agrees, bytes left in the buffer, length of the run, last buffer byte,
                 \* normalisation pending
                 /\ (same \/ (PrintT(<<"DBCLASS", samePos, sameVal, Len(buf) - d.pos, op[2], buf[Len(buf)], d.range < Top>>) /\ FALSE))
                 /\ DirectAgree(p[1], buf, probs, Tail(ops), what)

Cuts == {k \in 0..MaxCut : Len(Payload(Stream)) - k >= 1}       \* the chunk buffer always holds at least one byte
CutBuf(k) == SubSeq(Payload(Stream), 1, Len(Payload(Stream)) - k)
PosAccounting    == \A k \in Cuts : DirectAgree(Dec0(Stream), CutBuf(k), P0, script, "pos")
PastEndReadsZero == \A k \in Cuts : DirectAgree(Dec0(Stream), CutBuf(k), P0, script, "val")
DirectBitsAgree  == \A k \in Cuts : DirectAgree(Dec0(Stream), CutBuf(k), P0, script, "both")

TypeOK == /\ enc.range \in Top..RMax /\ enc.low \in 0..(2 * Word - 1)
          /\ enc.cache \in 0..(Digit - 1) /\ enc.cacheSize >= 1
          /\ \A c \in 1..NCtx : eprobs[c] \in 1..(Total - 1)
=============================================================================
