--------------------------- MODULE Trace_MtReader ---------------------------
(* Trace validation of the real LZMA2ReaderMT / LZIPReaderMT against MtReader: every line of the
   NDJSON file named by the environment variable TRACE is one granted operation of the
   deterministic runtime ({"t": thread, "op": name, "o": object, "v": observed value}); each must be
   the image of exactly one non-silent action of the specification, with the observed values bound.
   Several runs may be concatenated with {"op": "Reset"} lines. *)
EXTENDS MtReader, Json, IOUtils, Integers
Rec == ndJsonDeserialize(IOEnv.TRACE)
VARIABLE l
tvars == <<vars, l>>
Ev == Rec[l]
Is(t, op, o) == l <= Len(Rec) /\ Ev.t = t /\ Ev.op = op /\ Ev.o = o
TInit == Init /\ l = 1 /\ TLCSet(1, 1)

B(x) == IF x THEN 1 ELSE 0

CoordEv ==
  \/ Is(0, "Lock", 1)   /\ (CL0Lock \/ CE1 \/ CSE1)
  \/ Is(0, "Unlock", 1) /\ (CL1u \/ CE2 \/ CSE3)
  \/ Is(0, "TryRecv", 0) /\ CR1 /\ Ev.v = (IF CH.msgs # <<>> THEN 0 ELSE IF CH.senders = 0 THEN 2 ELSE 1)
  \/ Is(0, "Recv", 0) /\ CRecv /\ Ev.v = B(CH.msgs # <<>>)
  \/ Is(0, "Lock", 0)   /\ (CR2 \/ CDrop2l \/ \E v \in Variants : CSLock(v) \/ CSLen(v))
  \/ Is(0, "Unlock", 0) /\ (CR2u \/ CDrop2u \/ \E v \in Variants : CSUnlock(v) \/ CSLenU(v))
  \/ Is(0, "ALoad", 0)  /\ (\E v \in Variants : CSLoad(v)) /\ Ev.v = B(Q.closed)
  \/ Is(0, "NotifyOne", 0) /\ (\E v \in Variants : CSNotifyW(v, Ev.v))
  \/ Is(0, "ALoad", 2)  /\ (\E v \in Variants : CSAct(v)) /\ Ev.v = SH.active
  \/ (l <= Len(Rec) /\ Ev.t = 0 /\ Ev.op = "Spawn" /\ C.spawned + 1 = Ev.o
        /\ ((CNew /\ Kind = "lzma2") \/ \E v \in Variants : CSSpawn(v)))
  \/ Is(0, "AStore", 1) /\ (CDrop1 \/ CSE2) /\ Ev.v = 1
  \/ Is(0, "AStore", 0) /\ CDrop2 /\ Ev.v = 1
  \/ Is(0, "NotifyAll", 0) /\ CDrop3
  \/ Is(0, "DropReceiver", 0) /\ CDrop4
  \/ Is(0, "DropSender", 0) /\ CDrop5
  \/ Is(0, "Exit", -1) /\ CExit

WorkerEv(w) ==
  \/ Is(w, "ALoad", 1) /\ WTop(w) /\ Ev.v = B(SH.shutdown)
  \/ Is(w, "Lock", 0) /\ WLock(w)
  \/ Is(w, "Unlock", 0) /\ (WGotUnlock(w) \/ WNoneUnlock(w))
  \/ Is(w, "ALoad", 0) /\ WChk(w) /\ Ev.v = B(Q.closed)
  \/ Is(w, "CvWait", 0) /\ WWait(w)
  \/ Is(w, "CvWake", 0) /\ WWake(w)
  \/ (Is(w, "AAdd", 2) /\ Ev.v = 1 /\ WInc(w))
  \/ (Is(w, "AAdd", 2) /\ Ev.v = -1 /\ WDec(w))
  \/ Is(w, "Send", 0) /\ (WSend(w) \/ WWakeSend(w)) /\ Ev.v = B(CH.rxAlive)
  \/ Is(w, "Lock", 1) /\ WEsLock(w)
  \/ Is(w, "Unlock", 1) /\ WEsUnlock(w)
  \/ Is(w, "AStore", 1) /\ WShut(w) /\ Ev.v = 1
  \/ Is(w, "DropSender", 0) /\ WDropTx(w)
  \/ Is(w, "Exit", -1) /\ WExit(w)

Reset == l <= Len(Rec) /\ Ev.op = "Reset" /\ Q' = Q0 /\ CH' = CH0 /\ SH' = SH0 /\ C' = C0 /\ W' = W0
\* free-form events (PANIC, FAILPOINT) carry no state change
UserEv == l <= Len(Rec) /\ Ev.op = "User" /\ UNCHANGED vars

TNext ==
  \/ (l' = l /\ (CCall \/ CL0Hit \/ CRetEof \/ (CNew /\ Kind = "lzip")))
  \/ (l' = l + 1 /\ (CoordEv \/ (\E w \in Workers : WorkerEv(w)) \/ Reset \/ UserEv))

TSpec == TInit /\ [][TNext]_tvars
\* highest trace position reached: register 1, updated from a constraint (workers = 1)
Track == (IF l > TLCGet(1) THEN TLCSet(1, l) ELSE TRUE)
Accepted ==
  /\ PrintT(<<"TRACE-REACHED", TLCGet(1) - 1, "OF", Len(Rec)>>)
  /\ IF TLCGet(1) = Len(Rec) + 1 THEN TRUE
     ELSE Print(<<"REJECTED after event", TLCGet(1) - 1, "next", Rec[TLCGet(1)]>>, FALSE)
=============================================================================
