---------------------------- MODULE RangeCoderLimb ----------------------------
(* The range coder steps of RangeCoder.tla re-expressed on numbers split into limbs of LB bits, so that the real
   widths (32-bit range, 33-bit low: LB = 16) stay inside TLC's 32-bit integers. RangeBits = 2 * LB.
     range, code, bound : <<hi, lo>>          low : <<carry, hi, lo>>
   RangeCoderLimbEq.tla checks, at reduced width where both formulations fit, that these operators compute exactly
   what the integer operators of RangeCoder.tla compute in every reachable state; Trace_RangeCoder.tla uses them at
   real width to validate per-bit events of the real encoder and decoder (hook H3, level 2). *)
EXTENDS Integers, Sequences

CONSTANTS LB, ShiftBits, ModelBits, MoveBits

LBase   == 2 ^ LB
LDigit  == 2 ^ ShiftBits
LTotal  == 2 ^ ModelBits
LLowSh  == 2 ^ (LB - ShiftBits)             \* a limb shifted right by (LB - ShiftBits) leaves its top ShiftBits bits
LNInit  == (2 * LB) \div ShiftBits + 1

\* ---- range (two limbs)
LBelowTop(r) == r[1] < LLowSh                                            \* range < 2^(RangeBits - ShiftBits)
LShl(r)      == << (r[1] * LDigit + (r[2] \div LLowSh)) % LBase, (r[2] % LLowSh) * LDigit >>   \* << ShiftBits, truncating
LHalf(r)     == << r[1] \div 2, (r[2] \div 2) + (r[1] % 2) * (LBase \div 2) >>                  \* >> 1
LGe(a, b)    == a[1] > b[1] \/ (a[1] = b[1] /\ a[2] >= b[2])
LSub(a, b)   == LET lo == a[2] - b[2]                                    \* a - b for a >= b
                    br == IF lo < 0 THEN 1 ELSE 0
                IN << a[1] - b[1] - br, lo + br * LBase >>
\* (range >> ModelBits) * p with p < 2^ModelBits
LBound(r, p) ==
  LET q1 == r[1] \div LTotal
      q0 == (r[1] % LTotal) * (LBase \div LTotal) + (r[2] \div LTotal)
      m0 == q0 * p
  IN << q1 * p + (m0 \div LBase), m0 % LBase >>

\* ---- encoder: [low |-> <<c, hi, lo>>, range |-> <<hi, lo>>, cache, cacheSize, out]
LEnc0 == [low |-> <<0, 0, 0>>, range |-> <<LBase - 1, LBase - 1>>, cache |-> 0, cacheSize |-> 1, out |-> <<>>]

LAddLow(l, b) == LET s0 == l[3] + b[2]
                     s1 == l[2] + b[1] + (s0 \div LBase)
                 IN << l[1] + (s1 \div LBase), s1 % LBase, s0 % LBase >>

LShiftLow(e) ==
  LET l == e.low
      flushNow == l[1] # 0 \/ l[2] < LBase - LLowSh                       \* low_hi != 0 || low < 0xFF000000
      out1 == IF flushNow
                THEN e.out \o <<(e.cache + l[1]) % LDigit>> \o [i \in 1..(e.cacheSize - 1) |-> (LDigit - 1 + l[1]) % LDigit]
                ELSE e.out
      cache1 == IF flushNow THEN (l[2] \div LLowSh) % LDigit ELSE e.cache
      cs1 == IF flushNow THEN 0 ELSE e.cacheSize
  IN [e EXCEPT !.out = out1, !.cache = cache1, !.cacheSize = cs1 + 1,
               !.low = << 0, (l[2] % LLowSh) * LDigit + (l[3] \div LLowSh), (l[3] % LLowSh) * LDigit >>]

LEncNorm(e) == IF LBelowTop(e.range) THEN LShiftLow([e EXCEPT !.range = LShl(e.range)]) ELSE e

LEncodeBit(e, p, bit) ==
  LET bound == LBound(e.range, p)
  IN LEncNorm(IF bit = 0 THEN [e EXCEPT !.range = bound]
              ELSE [e EXCEPT !.low = LAddLow(e.low, bound), !.range = LSub(e.range, bound)])

LEncodeDirectBit(e, b) ==
  LET r1 == LHalf(e.range)
  IN LEncNorm([e EXCEPT !.range = r1, !.low = IF b = 1 THEN LAddLow(e.low, r1) ELSE e.low])

RECURSIVE LFlush(_, _)
LFlush(e, k) == IF k = 0 THEN e ELSE LFlush(LShiftLow(e), k - 1)
LFinish(e) == LFlush(e, LNInit)

LEncProb(p, bit) == IF bit = 0 THEN p + ((LTotal - p) \div (2 ^ MoveBits)) ELSE p - (p \div (2 ^ MoveBits))

\* ---- decoder: [code |-> <<hi, lo>>, range |-> <<hi, lo>>, pos]
LReadByte(buf, pos) == IF pos < Len(buf) THEN buf[pos + 1] ELSE 0

LNormalize(d, buf) ==
  IF LBelowTop(d.range)
    THEN LET c == LShl(d.code) IN
         [d EXCEPT !.code = << c[1], c[2] + LReadByte(buf, d.pos) >>, !.range = LShl(d.range), !.pos = d.pos + 1]
    ELSE d

\* returns <<decoder, bit>>
LDecodeBit(d0, buf, p) ==
  LET d == LNormalize(d0, buf)
      bound == LBound(d.range, p)
  IN IF LGe(d.code, bound)
       THEN << [d EXCEPT !.range = LSub(d.range, bound), !.code = LSub(d.code, bound)], 1 >>
       ELSE << [d EXCEPT !.range = bound], 0 >>

\* one direct bit: normalise, range >>= 1, sign bit of (code - range)
LDecodeDirectBit(d0, buf) ==
  LET d == LNormalize(d0, buf)
      r1 == LHalf(d.range)
      \* t = ((code - range) mod 2^RangeBits) >> (RangeBits - 1): 0 iff (code >= range and the difference is < 2^(RangeBits-1))
      ge == LGe(d.code, r1)
      diff == IF ge THEN LSub(d.code, r1) ELSE LSub(<<d.code[1] + LBase, d.code[2]>>, r1)     \* + 2^RangeBits if negative
      t == IF diff[1] >= LBase \div 2 THEN 1 ELSE 0
  IN << [d EXCEPT !.range = r1, !.code = IF t = 0 THEN LSub(d.code, r1) ELSE d.code], 1 - t >>

\* decode_bit's probability update in wrapping arithmetic of a register wide enough for the trick
LRegW == 2 ^ (ModelBits + MoveBits + 4)
LDecProb(p, bit) ==
  LET offset == IF bit = 0 THEN (2 ^ MoveBits - 1 - LTotal) % LRegW ELSE 0
      t == ((p + offset) % LRegW) \div (2 ^ MoveBits)
  IN ((p - t) % LRegW) % (2 ^ (ModelBits + 3))
=============================================================================
