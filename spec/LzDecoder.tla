---------------------------- MODULE LzDecoder ----------------------------
(* Decoder dictionary ring of lzma-rust2 (src/lz/lz_decoder.rs: set_limit, put_byte, repeat with its three copy
   regimes, repeat_pending, copy_uncompressed, flush, reset) driven by the read loops of src/lzma_reader.rs
   (Kind = "lzma": one range-coded stream, declared size or end marker) and src/lzma2_reader.rs (Kind = "lzma2":
   chunks, uncompressed chunks, dictionary resets).

   Ring cells hold ghost value ids; `ref` is the unbounded reference output (a literal appends a fresh id, a match
   copies ids). The environment chooses, step by step, the next symbol of the stream (literal / match(dist, len) /
   a match with an invalid distance / chunk headers / end) AND the sizes of the caller's read buffers (0 included).

   Properties
     OutputInOrder    every flush delivers exactly the next bytes of `ref` (C07: for every read-size sequence and
                      every split of a match across reads and across the ring wrap)
     CopySourceValid  every distance the decoder accepts (dist < full) addresses the cell that holds the stream
                      byte  produced - dist - 1  (the ring mirrors the last `full` bytes of the stream)
     DistCheck        a distance >= full is rejected before any index arithmetic, nothing is modified (C06)
     ZeroReadIsNoop   read(&mut []) returns 0 and changes nothing (C07)
     LimitRespected   the decoder never writes beyond the limit derived from the caller's buffer, never delivers
                      more than asked
     Accounting       delivered + buffered + pending = produced
   With KeepHist = TRUE the behaviour is recorded in `hist` and printed when complete (simulation mode): C14 / C07 /
   C01 replay such behaviours on the real readers through forged streams (tools/checks/symlib.py). *)
EXTENDS LzRing, Sequences, TLC, Json

CONSTANTS Kind,        \* "lzma" | "lzma2"
          B,           \* ring size (dictionary size rounded up by the reader)
          MaxStream,   \* bound on the length of the uncompressed stream
          ReadSizes,   \* sizes of the caller's buffers (0 included)
          Lens,        \* match lengths
          ChunkSizes,  \* lzma2: uncompressed sizes of chunks
          SizeKnown,   \* lzma: header declares the size (else end marker)
          AllowBad,    \* the stream may contain a match whose distance is >= full
          KeepHist

VARIABLES buf, start, pos, full, limit, pLen, pDist,     \* LZDecoder
          ref, nOut, orderOk,                            \* reference stream, bytes delivered, OutputInOrder monitor
          pc, want, got, chunkLeft, symLeft, chunkKind, endReached, failed, needReset, done,
          nextId, lastBad, hist
lz   == <<buf, start, pos, full, limit, pLen, pDist>>
vars == <<buf, start, pos, full, limit, pLen, pDist, ref, nOut, orderOk, pc, want, got, chunkLeft, symLeft, chunkKind,
          endReached, failed, needReset, done, nextId, lastBad, hist>>

H(e) == IF KeepHist THEN Append(hist, e) ELSE hist

Init ==
  /\ buf = [i \in 0..B-1 |-> 0] /\ start = 0 /\ pos = 0 /\ full = 0 /\ limit = 0 /\ pLen = 0 /\ pDist = 0
  /\ ref = <<>> /\ nOut = 0 /\ orderOk = TRUE
  /\ pc = "idle" /\ want = 0 /\ got = 0 /\ chunkKind = "none" /\ endReached = FALSE /\ failed = FALSE
  /\ needReset = TRUE /\ done = FALSE /\ nextId = 1 /\ lastBad = FALSE
  /\ IF Kind = "lzma"
       THEN \E t \in 0..MaxStream : /\ symLeft = t /\ chunkLeft = (IF SizeKnown THEN t ELSE -1)
                                    /\ hist = (IF KeepHist THEN << <<"total", t>> >> ELSE <<>>)
       ELSE symLeft = 0 /\ chunkLeft = 0 /\ hist = <<>>

\* ---------------------------------------------------------------- LZDecoder
\* slice::copy_within / copy_from_slice of n cells from src to dst (memmove semantics)
CopyWithin(f, src, dst, n) == [i \in 0..B-1 |-> IF i >= dst /\ i < dst + n THEN f[src + (i - dst)] ELSE f[i]]

\* LZDecoder::repeat(dist, len), called with dist < full; returns the new ring fields
Repeat(dist, len) ==
  LET left0 == Min(limit - pos, len)
      pl    == len - left0
      wraps == pos < dist + 1
      \* regime 1: the source wraps around the end of the ring
      back1 == B + pos - dist - 1
      cs1   == IF wraps THEN Min(B - back1, left0) ELSE 0
      buf1  == IF wraps THEN CopyWithin(buf, back1, pos, cs1) ELSE buf
      pos1  == pos + cs1
      left1 == left0 - cs1
      back  == IF wraps THEN 0 ELSE pos - dist - 1
  IN IF wraps /\ left1 = 0
       THEN [buf |-> buf1, pos |-> pos1, full |-> full, pLen |-> pl, pDist |-> dist]      \* early return: full untouched
     ELSE IF dist >= left1
       THEN \* regime 2: no overlap possible, one copy
            [buf |-> CopyWithin(buf1, back, pos1, left1), pos |-> pos1 + left1, full |-> Max(full, pos1 + left1),
             pLen |-> pl, pDist |-> dist]
     ELSE \* regime 3: overlapping, doubling loop with `back` fixed
          LET RECURSIVE Loop(_, _, _)
              Loop(f, p, l) == IF l = 0 THEN [buf |-> f, pos |-> p]
                               ELSE LET cs == Min(l, p - back) IN Loop(CopyWithin(f, back, p, cs), p + cs, l - cs)
              r == Loop(buf1, pos1, left1)
          IN [buf |-> r.buf, pos |-> r.pos, full |-> Max(full, r.pos), pLen |-> pl, pDist |-> dist]

\* reference semantics of a match on the unbounded stream
RECURSIVE RefCopy(_, _, _)
RefCopy(r, dist, len) == IF len = 0 THEN r ELSE RefCopy(Append(r, r[Len(r) - dist]), dist, len - 1)

Produced == Len(ref) - pLen - (IF chunkKind = "U" THEN symLeft ELSE 0)    \* bytes that went through the ring so far

\* ---------------------------------------------------------------- the caller
H2(e1, e2) == IF KeepHist THEN hist \o <<e1, e2>> ELSE hist

\* Ok(n)
Return(n) == hist' = H(<<"read", want, n>>) /\ pc' = "idle" /\ UNCHANGED <<done, failed>>
\* Err(_): LZMA2Reader latches the error (one more call is explored), LZMAReader does not (behaviour ends)
Fail == failed' = TRUE /\ hist' = H(<<"read", want, -1>>) /\ pc' = "idle" /\ done' = (Kind = "lzma")

CallRead(k) ==
  /\ pc = "idle" /\ ~done /\ want' = k /\ got' = 0
  /\ IF k = 0
       THEN /\ hist' = H(<<"read", 0, 0>>) /\ UNCHANGED <<pc, done>>            \* if buf.is_empty() { return Ok(0) }
       ELSE IF failed THEN /\ hist' = H(<<"read", k, -1>>) /\ done' = TRUE /\ UNCHANGED pc
       ELSE IF endReached THEN /\ hist' = H(<<"read", k, 0>>) /\ done' = TRUE /\ UNCHANGED pc
       ELSE pc' = "loop" /\ UNCHANGED <<hist, done>>
  /\ UNCHANGED <<lz, ref, nOut, orderOk, chunkLeft, symLeft, chunkKind, endReached, failed, needReset, nextId, lastBad>>

\* while len > 0 { ... }
Loop ==
  /\ pc = "loop"
  /\ IF want - got = 0
       THEN Return(got) /\ UNCHANGED lz
       ELSE IF Kind = "lzma2" /\ chunkLeft = 0
         THEN pc' = "hdr" /\ UNCHANGED <<lz, hist, done, failed>>
       ELSE IF Kind = "lzma2" /\ chunkKind = "U"
         THEN pc' = "unc" /\ UNCHANGED <<lz, hist, done, failed>>
       ELSE \* set_limit(copy_size_max)
            LET len == want - got
                cmax == IF Kind = "lzma2" THEN Min(chunkLeft, len)
                        ELSE IF SizeKnown /\ chunkLeft < len THEN chunkLeft ELSE len
            IN /\ limit' = Min(cmax + pos, B) /\ pc' = "pending"
               /\ UNCHANGED <<buf, start, pos, full, pLen, pDist, hist, done, failed>>
  /\ UNCHANGED <<ref, nOut, orderOk, want, got, chunkLeft, symLeft, chunkKind, endReached, needReset, nextId, lastBad>>

\* lzma2: decode_chunk_header
ChunkHeader ==
  /\ pc = "hdr"
  /\ \/ \* control 0x00: end of stream; read returns what it has (Ok(size))
        /\ endReached' = TRUE /\ hist' = H2(<<"end">>, <<"read", want, got>>) /\ pc' = "idle"
        /\ UNCHANGED <<lz, ref, chunkLeft, symLeft, chunkKind, needReset, nextId, done>>
     \/ \E k \in {"L", "U"}, u \in ChunkSizes, reset \in BOOLEAN :
        /\ Len(ref) + u <= MaxStream
        /\ needReset => reset
        /\ IF reset                                                       \* LZDecoder::reset
             THEN /\ start' = 0 /\ pos' = 0 /\ full' = 0 /\ limit' = 0 /\ buf' = [buf EXCEPT ![B - 1] = 0]
                  /\ UNCHANGED <<pLen, pDist>>
             ELSE UNCHANGED lz
        /\ chunkKind' = k /\ chunkLeft' = u /\ symLeft' = u /\ needReset' = FALSE
        /\ IF k = "U"
             THEN /\ ref' = ref \o [i \in 1..u |-> nextId + i - 1] /\ nextId' = nextId + u
                  /\ hist' = H(<<"chunk", k, u, reset, [i \in 1..u |-> nextId + i - 1]>>)
             ELSE /\ UNCHANGED <<ref, nextId>> /\ hist' = H(<<"chunk", k, u, reset, <<>> >>)
        /\ pc' = "loop" /\ UNCHANGED <<endReached, done>>
  /\ UNCHANGED <<nOut, orderOk, want, got, failed, lastBad>>

\* lzma2: the first header is read inside the first non-empty read; `End` there returns what was read so far
\* (decode_chunk_header sets end_reached, read returns Ok(size)); the bookkeeping of Return is folded in above

\* lzma2 uncompressed chunk: copy_uncompressed(inner, copy_size_max)
CopyUncompressed ==
  /\ pc = "unc"
  /\ LET cmax == Min(chunkLeft, want - got)
         cs   == Min(B - pos, cmax)
         from == Len(ref) - symLeft            \* raw data not yet copied: ref[from+1 ..]
     IN /\ buf' = [i \in 0..B-1 |-> IF i >= pos /\ i < pos + cs THEN ref[from + 1 + (i - pos)] ELSE buf[i]]
        /\ pos' = pos + cs /\ full' = Max(full, pos + cs) /\ symLeft' = symLeft - cs
  /\ pc' = "flush"
  /\ UNCHANGED <<start, limit, pLen, pDist, ref, nOut, orderOk, want, got, chunkLeft, chunkKind, endReached, failed,
                 needReset, done, nextId, lastBad, hist>>

\* LZMADecoder::decode starts with lz.repeat_pending()
RepeatPending ==
  /\ pc = "pending"
  /\ IF pLen > 0
       THEN LET r == Repeat(pDist, pLen) IN
            /\ buf' = r.buf /\ pos' = r.pos /\ full' = r.full /\ pLen' = r.pLen /\ pDist' = r.pDist
            /\ Assert([pos |-> r.pos, pLen |-> r.pLen, pDist |-> r.pDist, full |-> r.full]
                      = RepeatScalars(B, pos, limit, full, pDist, pLen), "LzRing.RepeatScalars disagrees with Repeat")
       ELSE UNCHANGED <<buf, pos, full, pLen, pDist>>
  /\ pc' = "decode"
  /\ UNCHANGED <<start, limit, ref, nOut, orderOk, want, got, chunkLeft, symLeft, chunkKind, endReached, failed,
                 needReset, done, nextId, lastBad, hist>>

\* while lz.has_space() { ... }: a literal (put_byte)
Lit ==
  /\ pc = "decode" /\ pos < limit /\ symLeft >= 1
  /\ buf' = [buf EXCEPT ![pos] = nextId] /\ pos' = pos + 1 /\ full' = Max(full, pos + 1)
  /\ ref' = Append(ref, nextId) /\ nextId' = nextId + 1 /\ symLeft' = symLeft - 1
  /\ hist' = H(<<"lit", nextId>>)
  /\ UNCHANGED <<start, limit, pLen, pDist, nOut, orderOk, pc, want, got, chunkLeft, chunkKind, endReached, failed,
                 needReset, done, lastBad>>

Match(dist, len) ==
  /\ pc = "decode" /\ pos < limit /\ len <= symLeft /\ dist < full
  /\ LET r == Repeat(dist, len) IN
     /\ buf' = r.buf /\ pos' = r.pos /\ full' = r.full /\ pLen' = r.pLen /\ pDist' = r.pDist
     /\ Assert([pos |-> r.pos, pLen |-> r.pLen, pDist |-> r.pDist, full |-> r.full]
               = RepeatScalars(B, pos, limit, full, dist, len), "LzRing.RepeatScalars disagrees with Repeat")
  /\ ref' = RefCopy(ref, dist, len) /\ symLeft' = symLeft - len
  /\ hist' = H(<<"match", dist, len>>)
  /\ UNCHANGED <<start, limit, nOut, orderOk, pc, want, got, chunkLeft, chunkKind, endReached, failed, needReset, done,
                 nextId, lastBad>>

\* if dist >= self.full { return Err("dist overflow") }: the error leaves decode() and the read call at once;
\* bytes decoded in this call but not yet flushed are not delivered
BadDist(dist) ==
  /\ AllowBad /\ pc = "decode" /\ pos < limit /\ symLeft >= 2 /\ dist >= full
  /\ failed' = TRUE /\ lastBad' = TRUE
  /\ hist' = H2(<<"bad", dist>>, <<"read", want, -1>>)
  /\ pc' = "idle" /\ done' = (Kind = "lzma")
  /\ UNCHANGED <<lz, ref, nOut, orderOk, want, got, chunkLeft, symLeft, chunkKind, endReached, needReset, nextId>>

\* lzma, unknown size: the end marker is a match with distance 0xFFFFFFFF >= full -> Err, end_marker_detected()
Marker ==
  /\ Kind = "lzma" /\ ~SizeKnown /\ pc = "decode" /\ pos < limit /\ symLeft = 0
  /\ endReached' = TRUE /\ hist' = H(<<"marker">>) /\ pc' = "flush"
  /\ UNCHANGED <<lz, ref, nOut, orderOk, want, got, chunkLeft, symLeft, chunkKind, failed, needReset, done, nextId, lastBad>>

EndDecode ==
  /\ pc = "decode" /\ pos >= limit /\ pc' = "flush"
  /\ UNCHANGED <<lz, ref, nOut, orderOk, want, got, chunkLeft, symLeft, chunkKind, endReached, failed, needReset, done,
                 nextId, lastBad, hist>>

\* LZDecoder::flush and the bookkeeping after it
Flush ==
  /\ pc = "flush"
  /\ LET n == pos - start
         pos2 == IF pos = B THEN 0 ELSE pos
         inOrder == \A i \in 1..n : nOut + i <= Len(ref) /\ buf[start + i - 1] = ref[nOut + i]
         left2 == IF chunkLeft >= 0 THEN chunkLeft - n ELSE chunkLeft
         end2 == endReached \/ (Kind = "lzma" /\ SizeKnown /\ left2 = 0)
     IN /\ orderOk' = (orderOk /\ inOrder) /\ nOut' = nOut + n
        /\ pos' = pos2 /\ start' = pos2 /\ got' = got + n /\ chunkLeft' = left2 /\ endReached' = end2
        /\ IF Kind = "lzma" /\ end2
             THEN IF pLen > 0 THEN Fail            \* "end reached but not decoder finished"
                  ELSE /\ hist' = H(<<"read", want, got + n>>) /\ pc' = "idle" /\ UNCHANGED <<failed, done>>
             ELSE IF Kind = "lzma2" /\ left2 = 0 /\ pLen > 0
               THEN Fail                           \* "rc not finished or lz has pending"
               ELSE /\ pc' = "loop" /\ UNCHANGED <<failed, hist, done>>
  /\ UNCHANGED <<buf, full, limit, pLen, pDist, ref, want, symLeft, chunkKind, needReset, nextId, lastBad>>

BadDistAny == \E d \in {full, B} : BadDist(d)          \* the boundary distance and the largest one

Next ==
  \/ \E k \in ReadSizes : CallRead(k)
  \/ Loop \/ ChunkHeader \/ CopyUncompressed \/ RepeatPending \/ Lit \/ EndDecode \/ Flush \/ Marker
  \/ \E d \in 0..B-1, l \in Lens : Match(d, l)
  \/ BadDistAny
Spec == Init /\ [][Next]_vars

\* ---------------------------------------------------------------- properties
OutputInOrder == orderOk /\ nOut <= Len(ref)

\* the ring mirrors the last `full` bytes that went through it
Cell(d) == IF d >= pos THEN B + pos - d - 1 ELSE pos - d - 1           \* get_byte's / repeat's index arithmetic
CopySourceValid ==
  pc \in {"decode", "pending", "flush", "loop", "idle"} =>
    \A d \in 0..(full - 1) : d < Produced => buf[Cell(d)] = ref[Produced - d]

DistCheck == lastBad => failed          \* (BadDist leaves every LZDecoder field unchanged by construction)
DistCheckStep == [][lastBad' /\ ~lastBad => UNCHANGED lz]_vars

ZeroReadIsNoop == [][(pc = "idle" /\ pc' = "idle" /\ want' = 0 /\ ~done') =>
                       UNCHANGED <<lz, ref, nOut, chunkLeft, symLeft, endReached, failed>>]_vars

LimitRespected == /\ pc \in {"decode", "flush"} /\ chunkKind # "U" => pos <= limit
                  /\ got <= want
                  /\ limit <= B /\ pos <= B /\ start <= pos /\ full <= B

Accounting == ~failed => nOut + (pos - start) + pLen + (IF chunkKind = "U" THEN symLeft ELSE 0) = Len(ref)

\* printed once per complete behaviour (simulation mode, KeepHist = TRUE)
EmitHist == done /\ KeepHist => PrintT(<<"HIST", ToJson(hist)>>)
=============================================================================
