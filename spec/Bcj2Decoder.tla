------------------------------ MODULE Bcj2Decoder ------------------------------
(* The resumable BCJ2 decoder (src/filter/bcj2/decode.rs, Bcj2Decoder::decode) and the read loop that feeds it
   (src/filter/bcj2.rs, BCJ2Reader::read), transcribed at the grain of byte CLASSES.

   What is abstracted.  A byte of the main stream is one of
       "O" other   "F" 0x0F   "J" 0x80..0x8F   "C" 0xE8 (CALL)   "P" 0xE9 (JMP)
   (the only distinctions the decoder's control flow makes).  A byte is a *marker* iff it is C or P, or it is J and
   the byte before it - in the OUTPUT, i.e. temp[3] - is F.  Every marker owns one range-coded flag; flag 1 means
   that a four-byte operand follows, taken from the CALL stream (marker C) or the JUMP stream (P, J).  The range
   decoder's arithmetic is not modelled: the flag of the k-th marker (flags[k]) and whether the range falls below
   2^24 after decoding it (norm[k]) are part of the abstract input, as is the class of every operand's most
   significant byte (opc / opj), which becomes temp[3].  An operand is four opaque bytes <<kind, index, 1..4>>.

   What is kept exactly.  The ten decoder states (stream wanted 0..3, ORIG_0..ORIG_3 = 4..7 with a partly
   delivered operand in temp, ORIG = 8 destination full, OK = 9), temp[3], the per-stream buffer positions /
   limits, the five-byte initialisation of the range decoder, the two places where a pending normalisation may
   consume a byte (top of the loop, exit after a break), and BCJ2Reader::read: destination clamped to the bytes
   still owed, refill of exactly the stream the decoder asks for, the inner loop that tops a 32-bit stream up to
   four bytes, extra_read_sizes (bytes of a 32-bit stream beyond the last multiple of four, or fetched before an
   Interrupted), the error exits 3 / 4 / 5 / EOF.

   Environment.  An input is a record of Inputs (one is chosen in Init).  Destination sizes and source chunk sizes
   are either free (FreeMode: every call picks a size from CapSizes, every source read delivers a size from
   ChunkSizes) or follow cyclic patterns chosen in Init (CapPatterns, ChunkPatterns, one pattern per stream); the
   pattern mode is deterministic per initial state, which is what the replay into the real reader uses: the
   history variable `hist` then holds the predicted result of every call.  A source read may fail with
   Interrupted at most MaxIntr times.

   Properties (all partitions of the destination and of the four sources):
     OutputOK        every byte delivered is the next byte of the expected output (Exp, defined independently by a
                     one-pass reference over the abstract input)
     NoSpuriousError a valid input never makes read() fail (other than by handing on Interrupted)
     Progress        read() returns Ok(0) only when everything has been delivered
     Complete        when nothing is owed any more, exactly Len(Exp) bytes were delivered
     BufInv          pos <= lim <= fed <= stream length, and lim + extra = fed outside a refill
     TruncationSurfaces  a source that ends early (CutChoices) makes read() fail (eof / 3 / 5) unless the missing bytes
                     were never needed; OutputOK and Complete keep holding for what was delivered
     ErrorNotLost    an input error that arrives after part of a call's bytes were decoded is reported by the next
                     call and by every call after it (at most MaxFail such errors are injected)
*)
EXTENDS Integers, Sequences, FiniteSets, TLC, Json

CONSTANTS Inputs, FreeMode, CapSizes, ChunkSizes, CapPatterns, ChunkPatterns, Buf, MaxIntr, MaxFail,
          CutChoices      \* sequence of <<main, call, jump, rc>>: bytes missing at the end of each source (truncated input)

VARIABLES inp, cin, exp, d, rd, sch, hist
vars == <<inp, cin, exp, d, rd, sch, hist>>

MAIN == 0  CALL == 1  JUMP == 2  RC == 3
ORIG0 == 4  ORIG3 == 7  ORIG == 8  OK == 9
Streams == 0..3
Min2(a, b) == IF a < b THEN a ELSE b
MinSet(S) == CHOOSE x \in S : \A y \in S : x <= y

IsMarker(prev, t) == t \in {"C", "P"} \/ (prev = "F" /\ t = "J")
Is32(s) == s \in {CALL, JUMP}

\* ----------------------------------------------------------------------------- the abstract input
In == cin                  \* the current input record (= Inputs[inp], kept in a variable: evaluated once)
NTrue(bs) == Len(SelectSeq(bs, LAMBDA b : b))
RcLenOf(x) == 5 + NTrue(x.norm)
SLenOf(x, s) == CASE s = MAIN -> Len(x.main) [] s = CALL -> 4 * Len(x.opc) [] s = JUMP -> 4 * Len(x.opj) [] OTHER -> RcLenOf(x)
Cut(s) == CutChoices[sch.cut][s + 1]
Max0(a) == IF a < 0 THEN 0 ELSE a
SLen(s) == Max0(SLenOf(In, s) - Cut(s))          \* what the source really delivers
OpMsbOf(x, kind, idx) == IF kind = CALL THEN x.opc[idx] ELSE x.opj[idx]
OpMsb(kind, idx) == OpMsbOf(In, kind, idx)

\* Expected output: one pass over the main stream, the previous OUTPUT byte decides whether a J is a marker.
RECURSIVE ExpFrom(_, _, _, _, _, _)
ExpFrom(x, i, prev, k, c, j) ==
  IF i > Len(x.main) THEN <<>>
  ELSE LET t == x.main[i] IN
       IF ~IsMarker(prev, t) THEN <<<<0, i>>>> \o ExpFrom(x, i + 1, t, k, c, j)
       ELSE IF x.flags[k + 1] = 0 THEN <<<<0, i>>>> \o ExpFrom(x, i + 1, t, k + 1, c, j)
       ELSE IF t = "C"
         THEN <<<<0, i>>, <<CALL, c + 1, 1>>, <<CALL, c + 1, 2>>, <<CALL, c + 1, 3>>, <<CALL, c + 1, 4>>>>
              \o ExpFrom(x, i + 1, x.opc[c + 1], k + 1, c + 1, j)
         ELSE <<<<0, i>>, <<JUMP, j + 1, 1>>, <<JUMP, j + 1, 2>>, <<JUMP, j + 1, 3>>, <<JUMP, j + 1, 4>>>>
              \o ExpFrom(x, i + 1, x.opj[j + 1], k + 1, c, j + 1)
ExpOf(x) == ExpFrom(x, 1, "O", 0, 0, 0)
Exp == exp                 \* = ExpOf(cin)

\* ----------------------------------------------------------------------------- decoder (decode.rs)
Avail(dd, s) == dd.lim[s] - dd.pos[s]
Take(dd, s, n) == [dd EXCEPT !.pos[s] = @ + n]

\* deliver a sequence of tokens: compare with the expected output on the fly
Emit(dd, toks) ==
  [dd EXCEPT !.outn = @ + Len(toks),
             !.ok = @ /\ dd.outn + Len(toks) <= Len(Exp) /\ \A q \in 1..Len(toks) : Exp[dd.outn + q] = toks[q]]
MainToks(p, n) == [q \in 1..n |-> <<0, p + q>>]
OpToks(kind, idx, from, n) == [q \in 1..n |-> <<kind, idx, from + q - 1>>]

\* offset (1-based) of the first marker among the next `num` main bytes, 0 if there is none; the byte in front
\* of the first one is temp[3]
FirstMarker(p, num, t3) ==
  IF IsMarker(t3, In.main[p + 1]) THEN 1
  ELSE LET S == {m \in 2..num : IsMarker(In.main[p + m - 1], In.main[p + m])}
       IN IF S = {} THEN 0 ELSE MinSet(S)

\* `break` out of the main loop: a pending normalisation is done at once if a byte is at hand
Exit(dd, room) ==
  [d |-> IF dd.need /\ Avail(dd, RC) > 0 THEN [Take(dd, RC, 1) EXCEPT !.need = FALSE] ELSE dd, room |-> room]

RECURSIVE Loop(_, _), Operand(_, _)
Operand(dd, room) ==
  LET cj == IF dd.t3 = "C" THEN CALL ELSE JUMP IN
  IF Avail(dd, cj) = 0 THEN Exit([dd EXCEPT !.st = cj], room)
  ELSE LET idx == (dd.pos[cj] \div 4) + 1
           d1 == Take(dd, cj, 4)
       IN IF room < 4
            THEN Exit([Emit(d1, OpToks(cj, idx, 1, room)) EXCEPT !.tmp = <<cj, idx>>, !.t3 = OpMsb(cj, idx), !.st = ORIG0 + room], 0)
            ELSE Loop([Emit(d1, OpToks(cj, idx, 1, 4)) EXCEPT !.t3 = OpMsb(cj, idx)], room - 4)

Loop(dd, room) ==
  IF Is32(dd.st) THEN Operand([dd EXCEPT !.st = OK], room)
  ELSE IF dd.need /\ Avail(dd, RC) = 0 THEN [d |-> [dd EXCEPT !.st = RC], room |-> room]
  ELSE LET d1 == IF dd.need THEN [Take(dd, RC, 1) EXCEPT !.need = FALSE] ELSE dd
           av == Avail(d1, MAIN)
       IN IF av = 0 THEN [d |-> [d1 EXCEPT !.st = MAIN], room |-> room]
          ELSE IF room = 0 THEN [d |-> [d1 EXCEPT !.st = ORIG], room |-> 0]
          ELSE LET num == Min2(av, room)
                   p == d1.pos[MAIN]
                   m == FirstMarker(p, num, d1.t3)
               IN IF m = 0
                    THEN LET d2 == [Emit(Take(d1, MAIN, num), MainToks(p, num)) EXCEPT !.t3 = In.main[p + num]]
                         IN [d |-> [d2 EXCEPT !.st = IF d2.pos[MAIN] = d2.lim[MAIN] THEN MAIN ELSE ORIG], room |-> room - num]
                    ELSE LET d2 == [Emit(Take(d1, MAIN, m), MainToks(p, m)) EXCEPT
                                      !.t3 = In.main[p + m], !.k = @ + 1, !.need = In.norm[d1.k + 1]]
                         IN IF In.flags[d1.k + 1] = 0 THEN Loop(d2, room - m) ELSE Operand(d2, room - m)

Decode(dd, room) ==
  IF dd.rinit <= 5
    THEN LET want == 5 - dd.rinit
             take == Min2(Avail(dd, RC), want)
             d1 == [Take(dd, RC, take) EXCEPT !.rinit = @ + take, !.st = OK]
         IN IF take < want THEN [d |-> [d1 EXCEPT !.st = RC], room |-> room]
            ELSE Loop([d1 EXCEPT !.rinit = 6, !.need = FALSE], room)
  ELSE IF dd.st >= ORIG0 /\ dd.st <= ORIG3
    THEN LET n == Min2(room, ORIG - dd.st)
             d1 == [Emit(dd, OpToks(dd.tmp[1], dd.tmp[2], dd.st - ORIG0 + 1, n)) EXCEPT !.st = dd.st + n]
         IN IF d1.st <= ORIG3 THEN [d |-> d1, room |-> room - n] ELSE Loop(d1, room - n)
  ELSE Loop(dd, room)

D0 == [st |-> OK, rinit |-> 0, need |-> FALSE, t3 |-> "O", k |-> 0,
       pos |-> [s \in Streams |-> 0], lim |-> [s \in Streams |-> 0], tmp |-> <<CALL, 0>>, outn |-> 0, ok |-> TRUE]

\* ----------------------------------------------------------------------------- reader (bcj2.rs)
R0(e) == [pc |-> "idle", room |-> 0, result |-> 0, rem |-> Len(e), total |-> 0,
          extra |-> [s \in Streams |-> 0], fed |-> [s \in Streams |-> 0], last |-> <<"none", 0>>, calls |-> 0, intr |-> 0,
          fails |-> 0, err |-> ""]

Ok(n) == <<"ok", n>>
Err(c) == <<"err", c>>
AllFlagsDecoded(dd) == dd.k = Len(In.flags)

\* the tail of read(): the loop was left with `break`
Idle(r) == [r EXCEPT !.pc = "idle", !.room = 0, !.result = 0, !.total = 0]
Bump(n) == IF FreeMode THEN 0 ELSE n + 1          \* call / source-read counters only matter for the cyclic patterns
Finish(r, dd) ==
  [Idle(r) EXCEPT
            !.last = IF r.rem = 0
                       THEN IF ~AllFlagsDecoded(dd) THEN Err("4")       \* code != 0: symbols are still outstanding
                            ELSE IF dd.st \notin {MAIN, ORIG} THEN Err("5") ELSE Ok(r.result)
                       ELSE IF r.result = 0 THEN Err("eof") ELSE Ok(r.result)]

CallP(cap) ==
  /\ rd.pc = "idle"
  /\ LET dcap == Min2(cap, rd.rem) IN
     IF rd.err # ""                                   \* an input error that could not be reported at once is reported now, and again
       THEN rd' = [rd EXCEPT !.last = Err(rd.err), !.calls = Bump(@)]
     ELSE IF dcap = 0
       THEN rd' = [rd EXCEPT !.last = Ok(0), !.calls = Bump(@)]
       ELSE rd' = [rd EXCEPT !.pc = "run", !.room = dcap, !.result = 0, !.calls = Bump(@), !.last = <<"none", 0>>]
  /\ UNCHANGED <<inp, cin, exp, d>>

Run ==
  /\ rd.pc = "run"
  /\ LET r == Decode(d, rd.room)
         em == rd.room - r.room
         r1 == [rd EXCEPT !.room = r.room, !.result = @ + em, !.rem = @ - em]
     IN /\ d' = r.d
        /\ rd' = IF r.d.st >= ORIG0 THEN Finish(r1, r.d) ELSE [r1 EXCEPT !.pc = "refill", !.total = rd.extra[r.d.st]]
  /\ UNCHANGED <<inp, cin, exp>>

\* one read() of the wanted stream's source that delivers n bytes (0 = end of that source)
RefillP(n) ==
  /\ rd.pc = "refill"
  /\ LET s == d.st
         left == SLen(s) - rd.fed[s]
         tot == rd.total + n
         r1 == [rd EXCEPT !.fed[s] = @ + n, !.total = tot]
     IN /\ n >= 0 /\ n <= left /\ n <= Buf - rd.total /\ (n = 0 => left = 0)
        /\ IF n > 0 /\ tot < 4 /\ Is32(s) THEN rd' = r1 /\ d' = d                       \* inner loop: top up to 4 bytes
           ELSE IF tot = 0 THEN rd' = Finish(rd, d) /\ d' = d                            \* nothing at all: leave the loop
           ELSE IF Is32(s)
             THEN LET ex == tot % 4 IN
                  IF tot < 4
                    THEN /\ rd' = [Idle(r1) EXCEPT !.extra[s] = ex, !.last = IF rd.result # 0 THEN Ok(rd.result) ELSE Err("3")]
                         /\ d' = d
                    ELSE /\ rd' = [r1 EXCEPT !.extra[s] = ex, !.pc = "run"]
                         /\ d' = [d EXCEPT !.lim[s] = d.pos[s] + (tot - ex)]
             ELSE /\ rd' = [r1 EXCEPT !.pc = "run"]
                  /\ d' = [d EXCEPT !.lim[s] = d.pos[s] + tot]
  /\ UNCHANGED <<inp, cin, exp>>

\* the source read fails with Interrupted: bytes fetched so far are kept, what was decoded is reported
IntrP ==
  /\ rd.pc = "refill"
  /\ rd' = [Idle(rd) EXCEPT !.extra[d.st] = rd.total, !.intr = @ + 1,
                            !.last = IF rd.result # 0 THEN Ok(rd.result) ELSE Err("intr")]
  /\ UNCHANGED <<inp, cin, exp, d>>

\* the source read fails with another error: what was decoded is reported first and the error is kept for the next
\* call (the input may not repeat it); with nothing decoded the error is returned at once and not kept
FailP ==
  /\ rd.pc = "refill"
  /\ rd' = [Idle(rd) EXCEPT !.extra[d.st] = rd.total, !.fails = @ + 1,
                            !.err = IF rd.result # 0 THEN "hard" ELSE @,
                            !.last = IF rd.result # 0 THEN Ok(rd.result) ELSE Err("hard")]
  /\ UNCHANGED <<inp, cin, exp, d>>

\* ----------------------------------------------------------------------------- environment
Pat(ps, idx, n) == LET p == ps[idx] IN p[(n % Len(p)) + 1]
NextCaps == IF FreeMode THEN CapSizes ELSE {Pat(CapPatterns, sch.cap, rd.calls)}
NextChunks(s) == IF FreeMode THEN ChunkSizes ELSE {Pat(ChunkPatterns, sch.ch[s], sch.n[s])}

Truncated == \E s \in Streams : Cut(s) > 0
FinalErr == rd.last[1] = "err" /\ rd.last[2] \in {"eof", "3", "4", "5"}
Done == rd.pc = "idle" /\ (rd.rem = 0 \/ (rd.err # "" /\ rd.last = Err(rd.err)) \/ FinalErr)
Log == hist' = IF ~FreeMode /\ rd'.pc = "idle" THEN Append(hist, <<rd'.last, d'.st, rd'.rem>>) ELSE hist

Call == ~Done /\ \E cap \in NextCaps : CallP(cap) /\ UNCHANGED sch /\ Log
DoRun == Run /\ UNCHANGED sch /\ Log
Refill ==
  /\ rd.pc = "refill"
  /\ LET s == d.st
         left == SLen(s) - rd.fed[s]
     IN \E c \in NextChunks(s) :
          /\ RefillP(Min2(Min2(c, left), Buf - rd.total))
          /\ sch' = [sch EXCEPT !.n[s] = Bump(@)]
  /\ Log
Interrupt == rd.intr < MaxIntr /\ IntrP /\ UNCHANGED sch /\ Log
Fail == rd.fails < MaxFail /\ FailP /\ UNCHANGED sch /\ Log
Finished == Done /\ UNCHANGED vars
Next == Call \/ DoRun \/ Refill \/ Interrupt \/ Fail \/ Finished

Init ==
  /\ inp \in DOMAIN Inputs
  /\ cin = Inputs[inp]
  /\ exp = ExpOf(cin)
  /\ d = D0
  /\ rd = R0(exp)
  /\ sch \in [cap : IF FreeMode THEN {1} ELSE DOMAIN CapPatterns,
              ch : [Streams -> IF FreeMode THEN {1} ELSE DOMAIN ChunkPatterns],
              n : {[s \in Streams |-> 0]},
              cut : DOMAIN CutChoices]
  /\ hist = <<>>
Spec == Init /\ [][Next]_vars

\* ----------------------------------------------------------------------------- properties
TypeOK ==
  /\ d.st \in 0..9 /\ d.rinit \in 0..6 /\ d.need \in BOOLEAN /\ d.k \in 0..Len(In.flags)
  /\ rd.pc \in {"idle", "run", "refill"} /\ rd.rem \in 0..Len(Exp)
OutputOK == d.ok
NoSpuriousError == (rd.last[1] = "err" /\ ~Truncated) => (rd.last[2] = "intr" \/ (rd.last[2] = "hard" /\ rd.fails > 0))
\* a truncated input ends in an error unless the missing bytes were never needed; what was delivered before is right (OutputOK)
TruncationSurfaces == (Truncated /\ Done) => (rd.rem = 0 \/ rd.last[1] = "err")
\* an input error is never lost: once one is owed, no call reports success any more
ErrorNotLost == rd.err # "" => (rd.pc = "idle" /\ (rd.last = Err(rd.err) \/ (rd.last[1] = "ok" /\ rd.last[2] > 0)))
Progress == rd.last = Ok(0) => rd.rem = 0
Complete == d.outn + rd.rem = Len(Exp)
BufInv ==
  \A s \in Streams :
    /\ d.pos[s] <= d.lim[s] /\ d.lim[s] <= rd.fed[s] /\ rd.fed[s] <= SLen(s)
    /\ (rd.pc # "refill" => d.lim[s] + rd.extra[s] = rd.fed[s])
    /\ (Is32(s) => d.lim[s] % 4 = 0 /\ d.pos[s] % 4 = 0)
\* a call never hands out more than asked for, and never nothing while bytes are owed
CallBound == rd.pc = "idle" /\ rd.last[1] = "ok" => rd.last[2] <= Len(Exp)

\* the input set itself must be consistent: one flag per marker, one operand per set flag of the right kind
RECURSIVE Count(_, _, _, _, _, _)
Count(x, i, prev, k, c, j) ==
  IF i > Len(x.main) THEN <<k, c, j>>
  ELSE LET t == x.main[i] IN
       IF ~IsMarker(prev, t) THEN Count(x, i + 1, t, k, c, j)
       ELSE IF k + 1 > Len(x.flags) THEN <<-1, c, j>>
       ELSE IF x.flags[k + 1] = 0 THEN Count(x, i + 1, t, k + 1, c, j)
       ELSE IF t = "C" THEN (IF c + 1 > Len(x.opc) THEN <<-1, c, j>> ELSE Count(x, i + 1, x.opc[c + 1], k + 1, c + 1, j))
       ELSE (IF j + 1 > Len(x.opj) THEN <<-1, c, j>> ELSE Count(x, i + 1, x.opj[j + 1], k + 1, c, j + 1))
InputOK(x) == Count(x, 1, "O", 0, 0, 0) = <<Len(x.flags), Len(x.opc), Len(x.opj)>> /\ Len(x.norm) = Len(x.flags)
InputsOK == d = D0 => InputOK(In)

\* witnesses (must be VIOLATED in a separate run: the scenario classes are reachable)
WitnessSplitOperand == ~(d.st \in ORIG0 + 1..ORIG3)
WitnessNormAtExit == ~(rd.pc = "idle" /\ d.need /\ rd.rem > 0)
WitnessPartial32 == ~(\E s \in {CALL, JUMP} : rd.extra[s] > 0)
WitnessJccAcrossCalls == ~(d.t3 = "F" /\ rd.pc = "idle" /\ rd.rem > 0 /\ d.pos[MAIN] < Len(In.main) /\ In.main[d.pos[MAIN] + 1] = "J")

\* export of the deterministic (pattern mode) behaviours with the predicted result of every call
Export == (Done /\ ~FreeMode) =>
  PrintT(ToJson([script |-> inp, cap |-> sch.cap, ch |-> <<sch.ch[0], sch.ch[1], sch.ch[2], sch.ch[3]>>, cut |-> sch.cut, hist |-> hist]))
=============================================================================
