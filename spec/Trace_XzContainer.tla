------------------------- MODULE Trace_XzContainer -------------------------
(* Validation of real XZWriter runs against XzContainer. One run of the harness (vh_cont, family
   xz_write, or any .xz file with known content) becomes the event sequence

     Reset(check, limit, dict, hsize, cz)  Write(n)* Flush* Finish  Rec(record)*  End(observed oracle fields)

   where the Rec events are the records the independent strict parser extracted from the bytes the real
   writer produced, and cz are the compressed sizes it observed (the one thing the model cannot compute).
   Two passes over the same file, selected by the constant Shaped:

     Shaped = TRUE   implementation-shaped: the writer actions of XzContainer are replayed with the logged
                     arguments and real byte counts, and every observed record must equal the record the
                     model predicts (block structure, sizes, padding, index records, backward size).
                     A mismatch leaves the trace unexplained (reported as DRIFT by the checks).
     Shaped = FALSE  property-level: only the observed records and oracle fields are used; the invariants
                     T* state the properties on the real output. A violated invariant prints a TVIOL line and is counted;
                     the postcondition fails when the count is not zero, so every run of the batch is judged. *)
EXTENDS XzContainer, Json, IOUtils
CONSTANT Shaped
Rec == ndJsonDeserialize(IOEnv.TRACE)
VARIABLES l, obs, run
tvars == <<vars, l, obs, run>>
Ev == Rec[l]
Is(name) == l <= Len(Rec) /\ Ev.ev = name

TInit == InitWith([check |-> 0, limit |-> 0, dict |-> 0, hsize |-> 12, cz |-> <<>>]) /\ l = 1 /\ obs = <<>> /\ run = [id |-> "none", limit |-> 0, dict |-> 0, ended |-> FALSE] /\ TLCSet(1, 1) /\ TLCSet(3, 0)

Reset ==
  /\ Is("Reset")
  /\ cfg' = [check |-> Ev.check, limit |-> Ev.limit, dict |-> Ev.dict, hsize |-> Ev.hsize, cz |-> Ev.cz]
  /\ ws' = W0 /\ calls' = <<>> /\ file' = <<>> /\ streams' = <<>> /\ pads' = <<>> /\ trail' = "pending"
  /\ phase' = "write" /\ rd' = RD0 /\ obs' = <<>>
  /\ run' = [id |-> Ev.id, limit |-> Ev.limit, dict |-> Ev.dict, ended |-> FALSE]

Keep == UNCHANGED <<obs, run>>
Skip == UNCHANGED <<vars, obs, run>>

WriteEv  == Is("Write")  /\ (IF Shaped THEN Write(Ev.n) /\ Keep ELSE Skip)
FlushEv  == Is("Flush")  /\ (IF Shaped THEN (calls' = Append(calls, <<"f", 0>>) /\ UNCHANGED <<cfg, ws, file, streams, pads, trail, phase, rd>> /\ Keep) ELSE Skip)
FinishEv == Is("Finish") /\ (IF Shaped THEN Finish /\ Keep ELSE Skip)

\* the record the model predicts vs. the record the strict parser saw
Match(m, e) ==
  /\ m.k = e.k
  /\ CASE m.k = "SH"     -> m.check = e.check
       [] m.k = "BH"     -> m.hsize = e.hsize
       [] m.k = "Data"   -> m.csize = e.csize /\ m.usize = e.usize
       [] m.k = "Pad"    -> m.n = e.n
       [] m.k = "Check"  -> m.n = e.n
       [] m.k = "Index"  -> m.n = e.n /\ m.recs = e.recs /\ m.pad = e.pad /\ m.size = e.size
       [] m.k = "Footer" -> m.backward = e.backward
       [] OTHER          -> TRUE

RecEv ==
  /\ Is("Rec")
  /\ Shaped => (phase = "env" /\ Len(obs) < Len(file) /\ Match(file[Len(obs) + 1], Ev))
  /\ obs' = Append(obs, Ev) /\ UNCHANGED <<vars, run>>

EndEv ==
  /\ Is("End")
  /\ Shaped => Len(obs) = Len(file)
  /\ run' = [run EXCEPT !.ended = TRUE] /\ UNCHANGED <<vars, obs>>

TNext == l' = l + 1 /\ (Reset \/ WriteEv \/ FlushEv \/ FinishEv \/ RecEv \/ EndEv)
TSpec == TInit /\ [][TNext]_tvars

\* ---- property-level invariants on the real output, evaluated in the state after an End event
AtEnd == l > 1 /\ Rec[l - 1].ev = "End" /\ run.ended
E == Rec[l - 1]
\* a violated property is reported as a TVIOL line and counted in register 3; the postcondition fails if any was seen
Viol(name) == PrintT(<<"TVIOL", name, run.id>>) /\ TLCSet(3, TLCGet(3) + 1)
\* C02 / C03: what the real writer produced is a well-formed .xz file by the format rules alone
TWellFormed == AtEnd => (WellFormedF(obs) \/ Viol("WellFormed"))
\* C02: the crate's reader reproduces the input
TRoundTrip  == AtEnd => ((E.rt_ok /\ E.rt_equal) \/ Viol("RoundTrip"))
\* C03: the reference accepts the file and reproduces the input
TRef        == AtEnd => ((E.ref_ok /\ E.ref_equal) \/ Viol("Ref"))
\* C16: once the single-stream reader has returned end of stream it stands exactly at the end of the stream
TConsumed   == AtEnd => ((~E.rt_ok \/ E.consumed = E.stream_len) \/ Viol("Consumed"))
\* C18: every block <= max(block_size, dict); C02: blocks hold exactly the input
TSizeLimit  == AtEnd => ((run.limit = 0 \/ \A j \in 1..Len(BlockUs(obs, 1)) : BlockUs(obs, 1)[j] <= Max(run.limit, run.dict)) \/ Viol("SizeLimit"))
TContent    == AtEnd => ((SumSeq(BlockUs(obs, 1), 1) = E.input_len) \/ Viol("Content"))

Track == (IF l > TLCGet(1) THEN TLCSet(1, l) ELSE TRUE)
Accepted ==
  /\ PrintT(<<"TRACE-REACHED", TLCGet(1) - 1, "OF", Len(Rec)>>)
  /\ PrintT(<<"TVIOL-COUNT", TLCGet(3)>>)
  /\ IF TLCGet(1) = Len(Rec) + 1 THEN TRUE
     ELSE Print(<<"REJECTED after event", TLCGet(1) - 1, "next", Rec[TLCGet(1)]>>, FALSE)
  /\ TLCGet(3) = 0
=============================================================================
