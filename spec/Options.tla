------------------------------ MODULE Options ------------------------------
(* Option contract of the writers (property C19): for every value a caller can put into the public option
   structs, constructing a writer, writing and finishing either returns an error or yields a stream the
   corresponding reader decodes to the written bytes; never an undecodable stream, never a panic.

   A grid point is a record
     [w, slice, lc, lp, pb, dict, nice, mode, mf, depth, pd, ft, fv, sz]
   w      writer: "lzma" (raw, reader is told the same parameters) | "lzmahdr" (.lzma header) | "lzma2" | "xz"
          | "lzip" | "lzma2mt" | "lzipmt"
   dict   dictionary-size class (32-bit values do not fit TLC integers): see DictClasses
   pd     preset dictionary: "none" | "empty" | "some" | "long" (longer than the dictionary)
   ft/fv  XZ pre-filter class and its property class
   sz     chunk / block / member size, worker count and .lzma expected-size classes
   The grid is the union of boundary slices around a base point (Slices), not the full product.

   Two layers of predicates:
   * what the READERS accept (decode_props in lzma2_reader.rs, construct2 in lzma_reader.rs, BlockHeader::parse
     in xz/reader.rs) - fixed by the formats;
   * what the WRITERS check. Each validation is a variant constant: FALSE = absent, as at the pinned commit;
     TRUE = present. LZMAWriter::new and XZWriter::new report an error (Err); LZMA2Writer::new and
     LZIPWriter::new cannot, they clamp / drop the value (outcome OkDecodable) - see Strict below.
       VProps   lc <= 8, lp <= 4, pb <= 4, and lc + lp <= 4 for LZMA2
       VDict    4096 <= dict_size <= 768 MiB (the LZ encoder's positions are 31-bit)
       VNice    8 <= nice_len <= 273
       VPreset  an empty preset dictionary is no preset dictionary; XZ / LZIP cannot carry one
       VFilter  delta distance 1..256, BCJ start offset aligned, LZMA2 not allowed as a pre-filter
       VSize    LZMA2WriterMT does not reserve chunk_size bytes up front
       VReaderMinDict  (reader side) LZMA2Reader::new raises a dictionary size below 4 KiB to the format minimum, as
                LZMAReader does; FALSE: LZMA2Reader::new(_, 0, _) builds an empty window and panics on first use
   Class(p) predicts the outcome of executing the point on the real code:
     "Err" | "OkDecodable" | "OkUndecodable" | "Panic".  Contract (C19): Class(p) \in {"Err", "OkDecodable"}. *)
EXTENDS Naturals, Sequences, FiniteSets, TLC, Json

CONSTANTS VProps, VDict, VNice, VPreset, VFilter, VSize, VReaderMinDict,
          Writers, Export

Lzma2Family(w) == w \in {"lzma2", "xz", "lzma2mt"}
LzipFamily(w) == w \in {"lzip", "lzipmt"}
\* LZIPWriter / LZIPWriterMT override lc / lp / pb with the LZMA-302eos values and clamp the dictionary
Lc(p) == IF LzipFamily(p.w) THEN 3 ELSE p.lc
Lp(p) == IF LzipFamily(p.w) THEN 0 ELSE p.lp
Pb(p) == IF LzipFamily(p.w) THEN 2 ELSE p.pb

\* ------------------------------------------------------------------ dictionary-size classes
\* "100000" and "600000" are in range but not representable in the LZIP header byte (2^n - k * 2^(n-4)) nor as an
\* LZMA2 property (2^n, 3 * 2^(n-1)): the container must announce a size that is not smaller than the encoder's window
\* "5000" is in range and off every grid (neither 2^n nor 3 * 2^(n-1)): dict_size and dict_size - 1 share a distance slot
DictClasses == {"0", "1", "4095", "4096", "5000", "64K", "100000", "600000", "1M", "768M", "768M+1", "1.5G", "2G", "4G-16", "4G-1"}
\* the classes an ordinary machine can allocate: also executed with the optimal parser (distance-slot prices, 4096 bytes of
\* extra history) and both match finders
DictOrdinary == {"0", "1", "4095", "4096", "5000", "64K", "100000", "600000", "1M"}
DictZero(d) == d = "0"
DictBelowMin(d) == d \in {"0", "1", "4095"}
DictAboveEnc(d) == d \in {"768M+1", "1.5G", "2G", "4G-16", "4G-1"}       \* beyond what the LZ encoder can index
DictAboveLzip(d) == d \in {"768M", "768M+1", "1.5G", "2G", "4G-16", "4G-1"}  \* above LZIP's 512 MiB: clamped
DictAboveXz(d) == d \in {"4G-16"}                                             \* encode_lzma2_dict_size: too large

\* ------------------------------------------------------------------ what the readers accept
PropsByte(p) == ((Pb(p) * 5 + Lp(p)) * 9 + Lc(p)) % 256             \* LZMAOptions::get_props() as u8
DecLc(b) == (b % 45) % 9
DecLp(b) == (b % 45) \div 9
DecPb(b) == b \div 45
PropsRoundTrip(p) == LET b == PropsByte(p) IN b <= 224 /\ DecLc(b) = Lc(p) /\ DecLp(b) = Lp(p) /\ DecPb(b) = Pb(p)
ReaderProps(p) ==
  IF p.w = "lzma" THEN Lc(p) <= 8 /\ Lp(p) <= 4 /\ Pb(p) <= 4          \* LZMAReader::new, construct2
  ELSE IF Lzma2Family(p.w) THEN PropsRoundTrip(p) /\ Lc(p) + Lp(p) <= 4   \* decode_props
  ELSE PropsRoundTrip(p)                                                  \* .lzma header / lzip (fixed)
\* preset dictionaries: raw LZMA / LZMA2 readers are given the same bytes; the containers cannot carry one
ReaderPreset(p) ==
  CASE p.pd = "none" -> TRUE
    [] p.w \in {"lzma"} -> TRUE
    [] p.w \in {"lzma2"} -> p.pd # "empty"              \* LZMA2Reader: an empty dictionary is no dictionary
    [] p.w = "lzma2mt" -> TRUE                          \* the MT writer drops the dictionary for its workers...
    [] OTHER -> FALSE                                   \* xz, lzip(mt), .lzma header
ReaderFilter(p) ==
  CASE p.ft = "none" -> TRUE
    [] p.ft = "delta" -> p.fv \in {"1", "256", "257"}     \* 257 is written as (257 - 1) as u8 = distance 1, and applied as 1
    [] p.ft = "bcj" -> p.fv \in {"zero", "aligned", "top"}
    [] p.ft = "lzma2" -> FALSE                            \* two LZMA2 filters: the inner stream is not what the header says
    [] p.ft = "three" -> TRUE
    [] p.ft = "four" -> TRUE                              \* never written: the writer refuses
\* raw LZMA2: the reader is told the caller's dict_size. The infallible writers never use a larger dictionary than
\* announced (0 is lifted to 1), so only the reader's own handling of 0 matters
ReaderDict(p) == VReaderMinDict \/ ~(p.w \in {"lzma2", "lzma2mt"} /\ DictZero(p.dict))
ReaderDecodes(p) == ReaderProps(p) /\ ReaderPreset(p) /\ ReaderFilter(p) /\ ReaderDict(p)

\* ------------------------------------------------------------------ what the writers do
\* validations of the pinned commit
ErrBuiltin(p) ==
  \/ p.w = "xz" /\ (p.ft = "four" \/ DictBelowMin(p.dict) \/ DictAboveXz(p.dict))
  \/ p.w = "lzmahdr" /\ p.pd # "none"
  \/ p.w \in {"lzma2mt", "lzipmt"} /\ p.sz = "unset"
  \/ p.w = "lzmahdr" /\ p.sz \in {"exp_less", "exp_more"}
Strict(w) == w \in {"lzma", "lzmahdr", "xz"}     \* constructors that report a bad option (see below)
\* out-of-range values by validation group
BadProps(p) == Lc(p) > 8 \/ Lp(p) > 4 \/ Pb(p) > 4 \/ (Lzma2Family(p.w) /\ Lc(p) + Lp(p) > 4)
\* strict constructors reject everything outside 4 KiB..768 MiB; LZMA2Writer::new only lowers (and lifts 0 to 1)
BadDict(p) == IF LzipFamily(p.w) THEN FALSE
              ELSE IF Strict(p.w) THEN (DictBelowMin(p.dict) \/ DictAboveEnc(p.dict))
              ELSE (DictZero(p.dict) \/ DictAboveEnc(p.dict))
BadNice(p) == p.nice < 8 \/ p.nice > 273
BadPreset(p) == (p.pd = "empty" /\ p.w = "lzma2") \/ (p.pd # "none" /\ (p.w = "xz" \/ LzipFamily(p.w)))
BadFilter(p) == p.w = "xz" /\ ((p.ft = "delta" /\ p.fv \in {"0", "257"}) \/ (p.ft = "bcj" /\ p.fv = "unaligned") \/ p.ft = "lzma2")
\* Who reports and who clamps, per validation group (as implemented by the fix commits):
\*   LZMAWriter::new / XZWriter::new return InvalidInput; LZMA2Writer::new cannot fail and clamps, and the workers of
\*   LZMA2WriterMT go through it; LZIPWriter(MT) clamp the dictionary and drop the preset dictionary themselves but
\*   construct their LZMAWriter lazily through the fallible constructor, so a bad nice_len surfaces as an error of
\*   the first write / finish.
ErrProps(p) == VProps /\ BadProps(p) /\ Strict(p.w)
ErrDict(p) == VDict /\ BadDict(p) /\ Strict(p.w)
ErrNice(p) == VNice /\ BadNice(p) /\ (Strict(p.w) \/ LzipFamily(p.w))
ErrPreset(p) == VPreset /\ p.w = "xz" /\ p.pd \in {"some", "long"}
ErrFilter(p) == VFilter /\ BadFilter(p)
WriterErrors(p) == ErrBuiltin(p) \/ ErrProps(p) \/ ErrDict(p) \/ ErrNice(p) \/ ErrPreset(p) \/ ErrFilter(p)
\* where the unvalidated value breaks the encoder (as built)
PanicProps(p) == Lc(p) > 8 \/ Pb(p) > 4
DictOverflows(d) == d \in {"2G", "4G-16", "4G-1"}                     \* dict_size as i32 + 1 is negative
PanicDict(p) == ~LzipFamily(p.w) /\ (DictZero(p.dict) \/ DictOverflows(p.dict))
PanicSize(p) == p.w = "lzma2mt" /\ p.sz = "huge"                      \* Vec::with_capacity(chunk_size)
\* nice_len > 273: the optimal parser (normal mode) emits lengths the length coder has no symbol for - a panic or,
\* on long runs, a stream that silently decodes to other bytes; the fast mode caps lengths at 273 itself
PanicNice(p) == p.nice < 2 \/ (p.nice = 2) \/ (p.nice = 3 /\ p.mf = "bt4") \/ (p.nice > 273 /\ p.mode = "normal")
PanicFilter(p) == p.w = "xz" /\ p.ft = "delta" /\ p.fv = "0"
EncoderPanics(p) ==
  \/ (~VProps /\ PanicProps(p)) \/ (~VDict /\ PanicDict(p)) \/ (~VNice /\ PanicNice(p)) \/ (~VFilter /\ PanicFilter(p))
  \/ (~VSize /\ PanicSize(p))
\* does the stream decode? a validated-and-clamped field is in range
StreamDecodes(p) ==
  /\ (ReaderProps(p) \/ (VProps /\ BadProps(p)))
  /\ (ReaderPreset(p) \/ (VPreset /\ BadPreset(p)))
  /\ (ReaderFilter(p) \/ (VFilter /\ BadFilter(p)))
  /\ ReaderDict(p)

Class(p) ==
  IF WriterErrors(p) THEN "Err"
  ELSE IF EncoderPanics(p) THEN "Panic"
  ELSE IF StreamDecodes(p) THEN "OkDecodable"
  ELSE "OkUndecodable"

\* ------------------------------------------------------------------ the boundary grid
Base(w) == [w |-> w, slice |-> "base", lc |-> 3, lp |-> 0, pb |-> 2, dict |-> "64K", nice |-> 32, mode |-> "normal",
            mf |-> "bt4", depth |-> "zero", pd |-> "none", ft |-> "none", fv |-> "none", sz |-> "default"]
Props(w) == {[Base(w) EXCEPT !.slice = "props", !.lc = a, !.lp = b] : a \in 0..9, b \in 0..5}
            \cup {[Base(w) EXCEPT !.slice = "props", !.pb = c, !.lc = a[1], !.lp = a[2]] : c \in {0, 4, 5}, a \in {<<3, 0>>, <<0, 4>>, <<8, 4>>}}
Dicts(w) == {[Base(w) EXCEPT !.slice = "dict", !.dict = x, !.mf = m, !.mode = "fast"] : x \in DictClasses, m \in {"hc4"}}
            \cup {[Base(w) EXCEPT !.slice = "dict", !.dict = x, !.mf = m, !.mode = "normal"] : x \in DictOrdinary, m \in {"hc4", "bt4"}}
Nices(w) == {[Base(w) EXCEPT !.slice = "nice", !.nice = x, !.mf = m, !.mode = o] :
               x \in {0, 1, 2, 3, 4, 7, 8, 273, 274, 1000}, m \in {"hc4", "bt4"}, o \in {"fast", "normal"}}
Depths(w) == {[Base(w) EXCEPT !.slice = "depth", !.depth = x, !.mf = m] : x \in {"min", "neg1", "zero", "one", "max"}, m \in {"hc4", "bt4"}}
Presets(w) == {[Base(w) EXCEPT !.slice = "preset", !.pd = x] : x \in {"none", "empty", "some", "long"}}
Filters(w) == IF w # "xz" THEN {} ELSE
  {[Base(w) EXCEPT !.slice = "filter", !.ft = "delta", !.fv = x] : x \in {"0", "1", "256", "257"}}
  \cup {[Base(w) EXCEPT !.slice = "filter", !.ft = "bcj", !.fv = x] : x \in {"zero", "aligned", "unaligned", "top"}}
  \cup {[Base(w) EXCEPT !.slice = "filter", !.ft = x] : x \in {"lzma2", "three", "four"}}
Sizes(w) ==
  {[Base(w) EXCEPT !.slice = "size", !.sz = x] :
     x \in (CASE w \in {"lzma2", "xz", "lzip"} -> {"default", "one", "dict", "huge"}
              [] w \in {"lzma2mt", "lzipmt"} -> {"unset", "one", "dict", "huge", "w0", "w1", "w1000"}
              [] w = "lzmahdr" -> {"exp_exact", "exp_none", "exp_less", "exp_more"}
              [] OTHER -> {"marker", "nomarker"})}
Slices(w) == {Base(w)} \cup Props(w) \cup Dicts(w) \cup Nices(w) \cup Depths(w) \cup Presets(w) \cup Filters(w) \cup Sizes(w)
Grid == UNION {Slices(w) : w \in Writers}

VARIABLE p
Init == p \in Grid
Next == UNCHANGED p
Spec == Init /\ [][Next]_p

Exported == Export => PrintT(ToJson([point |-> p, class |-> Class(p)]))
\* C19 on the model: no grid point is accepted into an undecodable stream or a panic
Contract == Class(p) \in {"Err", "OkDecodable"}
\* WriterAccepts(o) => ReaderDecodes(o) \/ WriterErrors(o), for the points the encoder survives
AcceptImpliesDecodes == (~WriterErrors(p) /\ ~EncoderPanics(p)) => StreamDecodes(p)
=============================================================================
