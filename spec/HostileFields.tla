------------------------------ MODULE HostileFields ------------------------------
(* Decoders stay total on untrusted bytes (property C06; DESIGN.md 6/C06).

   Reader halves with ADVERSARIAL FIELD CLASSES: every attacker-controlled value that flows into an allocation,
   a slice index or a loop bound is given its extreme classes, and the reader half says which result class the
   parse must end in: "err" (the value is invalid and must be refused), "ok" (the value is legal, however
   extreme) or either where the format leaves the choice. "panic", "abort" (capacity overflow, allocation
   failure, stack overflow), "spin", "unbounded" and "timeout" are never expected. AllocKiB bounds the heap the
   decoder may take: the dictionary the input declares (per worker for the MT readers) plus an amount
   proportional to the input's own length.

   "Every read call" includes the calls AFTER a call that returned Err: the case runner calls each reader twice more
   (1-byte and full buffer) after the first error; the result class of the case is the worst one seen, so a panic there
   is a panic of the case (what such a call returns, Ok or Err, is not C06's subject).

   A case is [fam, f1 .. f5]; families and their fields:
     xz_index   f1 record count class, f2 its encoding, f3 number of blocks in the stream
     xz_bh      f1 header size class, f2 filter chain, f3 LZMA2 dictionary property, f4 size fields, f5 props size
     lzma2      f1 first control byte, f2 chunk size class, f3 props byte, f4 payload, f5 dictionary parameter
     lzma       f1 props byte, f2 dictionary size, f3 declared size, f4 body, f5 memory limit        (.lzma header)
     lzip       f1 version, f2 dictionary byte, f3 member_size, f4 data_size, f5 reader (st / mt)
     many       f1 what is repeated, f2 how often, f5 reader (st / mt)
     filter     f1 filter, f2 parameter, f3 data class
     dist       f1 first symbols of a raw LZMA stream whose match distance is beyond the dictionary fill
     lzma2_seq  f1 first chunk, f2 control byte of the second chunk, f3 its payload, f5 dictionary parameter
     lzip_multi f1 which member's trailer carries a wrong member_size, f2 the wrong value, f3 number of members, f5 reader
   TLC enumerates, per family, every combination in which at most TWO fields leave their default class
   (pairwise coverage of the first-error-wins parse), exports each case with its expected classes and bound;
   tools/checks/c06.py forges the bytes, runs the real decoders in contained processes and lets TLC
   (Trace_HostileFields) judge the observed outcome and allocation. *)
EXTENDS Naturals, Sequences, FiniteSets, TLC, Json

CONSTANTS Families,      \* subset of the family names to enumerate
          MaxDeviations  \* 2 = pairwise

Fields == [
  xz_index |-> <<{"blocks", "zero", "blocks_plus_1", "2p32", "2p63m1"}, {"min", "overlong", "too_long", "cut"}, {"1", "0", "2"}, {"-"}, {"-"}>>,
  xz_bh    |-> <<{"exact", "declared_min", "padded_max", "too_small"},
                 {"lzma2", "delta_lzma2", "x86_lzma2", "four", "lzma2_not_last", "unknown_id", "bcj_bad_offset"},
                 {"18", "0", "39", "40", "41", "255"},
                 {"absent", "right", "zero", "max63", "overlong", "too_long"},
                 {"ok", "big", "missing"}>>,
  lzma2    |-> <<{"e0", "00", "01", "02", "03", "7f", "80", "a0", "c0", "ff"}, {"fit", "max", "csize_lt5"},
                 {"5d", "e0", "e1", "ff", "lclp5"}, {"valid", "zeros", "ff", "cut"}, {"64k", "4096", "2p32m1", "0", "1"}>>,
  lzma     |-> <<{"5d", "00", "e0", "e1", "ff"}, {"4096", "0", "1", "2p32m1", "2p32m16"}, {"exact", "0", "1", "plus1", "2p63", "unknown"},
                 {"valid", "zeros", "ff", "empty", "first_nonzero"}, {"none", "64m"}>>,
  lzip     |-> <<{"1", "0", "2", "255"}, {"0c", "1d", "0b", "1e", "ec", "fd"}, {"right", "zero", "one", "plus1", "2p63", "file_plus"},
                 {"right", "2p63"}, {"st", "mt"}>>,
  many     |-> <<{"lzip_empty_members", "xz_empty_blocks", "xz_empty_streams", "lzma2_tiny_chunks", "lzip_tiny_members"},
                 {"10", "1000", "100000"}, {"-"}, {"-"}, {"st", "mt"}>>,
  filter   |-> <<{"delta", "x86", "arm", "armthumb", "arm64", "ppc", "sparc", "ia64", "riscv", "bcj2"}, {"0", "1", "256", "257", "max"},
                 {"random", "zeros", "ff", "opcodes"}, {"-"}, {"-"}>>,
  dist     |-> <<{"match_at_0", "rep_at_0", "lit_then_far_match"}, {"-"}, {"-"}, {"-"}, {"-"}>>,
  \* chunk SEQUENCES: first chunk (uncompressed with dictionary reset / LZMA with full reset), control byte of the second
  lzma2_seq |-> <<{"01", "e0"}, {"80", "9f", "a0", "bf", "c0", "e0", "02", "01", "03", "00", "none"}, {"valid", "zeros", "ff"}, {"-"}, {"64k", "4096"}>>,
  \* multi-member LZIP file with the member_size field of ONE trailer wrong
  lzip_multi |-> <<{"first", "last"}, {"zero", "one", "plus1", "minus1", "2p63", "file_plus"}, {"2", "3"}, {"-"}, {"st", "mt"}>>
]
\* the default class of a field is the first one listed above
Default == [
  xz_index |-> <<"blocks", "min", "1", "-", "-">>, xz_bh |-> <<"exact", "lzma2", "18", "absent", "ok">>,
  lzma2 |-> <<"e0", "fit", "5d", "valid", "64k">>, lzma |-> <<"5d", "4096", "exact", "valid", "none">>,
  lzip |-> <<"1", "0c", "right", "right", "st">>, many |-> <<"lzip_empty_members", "10", "-", "-", "st">>,
  filter |-> <<"delta", "1", "random", "-", "-">>, dist |-> <<"match_at_0", "-", "-", "-", "-">>,
  lzma2_seq |-> <<"01", "80", "valid", "-", "64k">>, lzip_multi |-> <<"first", "zero", "2", "-", "st">>
]
\* fields that select a scenario rather than deviate from a well-formed file (every value is enumerated)
Free == [xz_index |-> {3}, xz_bh |-> {}, lzma2 |-> {5}, lzma |-> {5}, lzip |-> {5}, many |-> {1, 2, 5}, filter |-> {1, 2, 3}, dist |-> {1},
         lzma2_seq |-> {1, 2, 3, 5}, lzip_multi |-> {1, 2, 3, 5}]

Dev(fam, c) == Cardinality({i \in 1..5 : i \notin Free[fam] /\ c[i] # Default[fam][i]})
Cases == UNION {{[fam |-> fam, f1 |-> c[1], f2 |-> c[2], f3 |-> c[3], f4 |-> c[4], f5 |-> c[5]] :
                 c \in {x \in (Fields[fam][1] \X Fields[fam][2] \X Fields[fam][3] \X Fields[fam][4] \X Fields[fam][5]) :
                        Dev(fam, x) <= MaxDeviations}} : fam \in Families}

OK == {"ok"}
ERR == {"err"}
ANY == {"ok", "err"}

\* ------------------------------------------------------------------ reader halves: first error wins
XzIndex(c) ==
  IF c.f2 \in {"too_long", "cut"} THEN ERR
  ELSE IF c.f1 = "blocks" \/ (c.f1 = "zero" /\ c.f3 = "0")
       THEN (IF c.f2 = "min" THEN OK ELSE ANY)        \* a non-minimal encoding is invalid by the format; a lenient reader may accept
       ELSE ERR                                       \* any other count disagrees with the blocks decoded: error BEFORE allocating

XzBh(c) ==
  IF c.f1 \in {"declared_min", "too_small"} THEN ERR
  ELSE IF c.f4 \in {"too_long"} THEN ERR
  ELSE IF c.f2 \in {"lzma2_not_last", "unknown_id", "bcj_bad_offset"} THEN ERR
  ELSE IF c.f5 \in {"big", "missing"} THEN ERR
  ELSE IF c.f3 \in {"41", "255"} THEN ERR
  ELSE IF c.f4 \in {"zero", "max63", "overlong"} THEN ANY   \* wrong but structurally valid size fields: may be enforced or not
  ELSE OK                                                   \* incl. dictionary property 39 / 40 (3 GiB / 4 GiB - 1: declared, legal)

Lzma2(c) ==
  IF c.f1 = "00" THEN OK
  ELSE IF c.f1 \in {"02", "03", "7f", "80", "a0", "c0"} THEN ERR      \* first chunk must reset the dictionary (and set props)
  ELSE IF c.f1 = "01" THEN (IF c.f4 = "cut" THEN ERR ELSE OK)
  ELSE IF c.f3 \in {"e0", "e1", "ff", "lclp5"} THEN ERR               \* LZMA2 demands lc + lp <= 4
  ELSE IF c.f2 = "csize_lt5" THEN ERR
  ELSE IF c.f4 = "cut" THEN ERR
  ELSE IF c.f4 = "valid" /\ c.f2 = "fit" /\ c.f1 = "e0" THEN OK          \* (control 0xff adds 0x1f0000 to the declared size)
  ELSE ANY                                                            \* arbitrary payload: decodes to something or fails

Lzma(c) ==
  IF c.f1 \in {"e1", "ff"} THEN ERR
  ELSE IF c.f2 = "2p32m1" THEN ERR                                    \* above DICT_SIZE_MAX
  ELSE IF c.f5 = "64m" /\ c.f2 = "2p32m16" THEN ERR                   \* memory limit: refused before allocating
  ELSE IF c.f4 \in {"empty", "first_nonzero"} THEN ERR
  ELSE IF c.f3 = "0" THEN OK
  ELSE IF c.f4 = "valid" /\ c.f1 = "5d" /\ c.f3 \in {"exact", "unknown"} THEN OK
  ELSE ANY

Lzip(c) ==
  IF c.f1 # "1" THEN ERR
  ELSE IF c.f2 \in {"0b", "1e", "ec"} THEN ERR                        \* "fd" = 512 MiB - 7/16 = 288 MiB is legal
  ELSE IF c.f3 # "right" \/ c.f4 # "right" THEN ERR
  ELSE OK

\* the second chunk of an LZMA2 stream: an LZMA chunk that neither carries props (control < 0xC0) nor follows a chunk that
\* did is refused; after an LZMA chunk the coder exists and any control byte >= 0x80 is structurally fine
Lzma2Seq(c) ==
  IF c.f2 \in {"03", "none"} THEN ERR
  ELSE IF c.f2 \in {"00", "01", "02"} THEN OK
  ELSE IF c.f1 = "01" /\ c.f2 \in {"80", "9f", "a0", "bf"} THEN ERR        \* no props seen yet: there is no LZMA coder to continue
  ELSE ANY

Expected(c) ==
  CASE c.fam = "xz_index" -> XzIndex(c)
    [] c.fam = "lzma2_seq" -> Lzma2Seq(c)
    [] c.fam = "lzip_multi" -> ERR
    [] c.fam = "xz_bh" -> XzBh(c)
    [] c.fam = "lzma2" -> Lzma2(c)
    [] c.fam = "lzma" -> Lzma(c)
    [] c.fam = "lzip" -> Lzip(c)
    [] c.fam = "many" -> OK                 \* empty members / blocks / streams and tiny chunks are well-formed
    [] c.fam = "filter" -> (IF c.f1 = "bcj2" THEN ANY ELSE OK)     \* BCJ / Delta are total on every byte string
    [] c.fam = "dist" -> ERR

\* ------------------------------------------------------------------ allocation bound (KiB)
\* dictionary the input declares, in KiB (what the decoder is entitled to allocate for it)
DictKiB(c) ==
  CASE c.fam = "xz_bh" -> (IF c.f3 = "0" THEN 4 ELSE IF c.f3 = "18" THEN 2048 ELSE IF c.f3 = "39" THEN 3145728 ELSE IF c.f3 = "40" THEN 4194304 ELSE 0)
    [] c.fam = "lzma2_seq" -> (IF c.f5 = "4096" THEN 4 ELSE 64)
    [] c.fam = "lzip_multi" -> 4
    [] c.fam = "lzma2" -> (IF c.f5 \in {"4096", "0", "1"} THEN 4 ELSE IF c.f5 = "64k" THEN 64 ELSE 4194304)   \* below 4 KiB: raised to the minimum
    [] c.fam = "lzma" -> (IF c.f2 = "2p32m16" /\ c.f3 \in {"2p63", "unknown"} THEN 4194304 ELSE 4)    \* clamped to the declared size otherwise
    [] c.fam = "lzip" -> (IF c.f2 = "1d" THEN 524288 ELSE IF c.f2 = "fd" THEN 294912 ELSE 4)
    [] c.fam = "xz_index" -> 64
    [] c.fam = "many" -> 64
    [] OTHER -> 0
IsMt(c) == c.f5 = "mt"
\* fixed working memory: probability tables (up to 6 MiB of literal coders for lc + lp = 12 in a .lzma header), 64 KiB range
\* decoder buffer, 1 MiB BCJ2 buffers; MT: the same per worker plus the 1 MiB unit buffer and the queues
FixedKiB(mt) == IF mt THEN 20480 ELSE 10240
PerInput == 16
\* MT readers hold whole decoded units by design: their bound also grows with the output they hand out
\* mt: the case is read by a multi-threaded reader (2 workers in the harness)
AllocKiB(c, mt, inKiB, outKiB) == DictKiB(c) * (IF mt THEN 2 ELSE 1) + FixedKiB(mt) + PerInput * inKiB + (IF mt THEN 3 * outKiB ELSE 0)

\* ------------------------------------------------------------------ enumeration
VARIABLES case, judged
vars == <<case, judged>>
Init == case \in Cases /\ judged = FALSE
Classify == ~judged /\ judged' = TRUE /\ UNCHANGED case
Done == judged /\ UNCHANGED vars
Next == Classify \/ Done
Spec == Init /\ [][Next]_vars

\* the reader halves are total and never expect anything but Ok / Err
NeverPanic == Expected(case) \subseteq {"ok", "err"} /\ Expected(case) # {}
\* what is invalid by construction is refused: an invalid count / size / property never reaches an allocation
BoundFinite == AllocKiB(case, TRUE, 1, 1) < 2147483647 \div 2
Export == judged => PrintT(ToJson([fam |-> case.fam, f1 |-> case.f1, f2 |-> case.f2, f3 |-> case.f3, f4 |-> case.f4, f5 |-> case.f5,
                                   expected |-> Expected(case), dict_kib |-> DictKiB(case), mt |-> IsMt(case)]))
=============================================================================
