--------------------------- MODULE Trace_IoFaults ---------------------------
(* Validation of the I/O logs of the real readers and writers (harness/src/faultio.rs) against the layer
   contracts and the properties of IoFaults.tla. One run =
     {"ev":"Reset","half":"r"|"w","len":L,"need":K,"declared":D,"benign":b,"exact":x,"errk":kind|"none"}
     {"ev":"Io","d":"r"|"w","req":n,"ret":k|-1,"k":kind,"off":o}     every inner call, in order
     {"ev":"Api","res":"ok"|"err","k":kind,"n":bytes,"eq":b}          what the caller of the reader / writer got
   len      source length after truncation (readers) / 0 (writers)
   need     number of source bytes the fault-free run consumes (truncation below it must fail)
   declared output length of the fault-free run (readers) / sink length of the fault-free run (writers)
   benign   the script contains only short transfers and interrupts and no truncation below `need`
   exact    the reader fetches everything through read_exact-like loops (contract checked call by call)
   errk     the error kind the script injects ("none" if it injects none)
   The module is a monitor: it reconstructs source position, end-of-input and delivered-error state from the
   log and evaluates the IoFaults properties on the reconstructed state; runs are concatenated. *)
EXTENDS Naturals, Integers, Sequences, TLC, Json, IOUtils

Rec == ndJsonDeserialize(IOEnv.TRACE)
VARIABLES l,        \* next event
          cfg,      \* the Reset record of the current run
          pos,      \* source offset / bytes accepted by the sink
          eof,      \* the source answered a non-empty request with 0 bytes
          errSeen,  \* kind of the error the source / sink returned, "none" before
          last,     \* [req, ret, off] of the previous call of this run (ret = -2: none yet)
          api,      \* the Api record once seen, else [res |-> "none"]
          bad       \* first contract the log broke ("" = none): implementation-shaped, reported as drift
vars == <<l, cfg, pos, eof, errSeen, last, api, bad>>
Ev == Rec[l]
NoCfg == [ev |-> "Reset", half |-> "r", len |-> 0, need |-> 0, declared |-> 0, benign |-> FALSE, exact |-> FALSE, errk |-> "none"]
NoLast == [req |-> 0, ret |-> -2, off |-> 0, k |-> "", inj |-> FALSE]
NoApi == [res |-> "none", k |-> "", n |-> 0, eq |-> FALSE]

TInit == l = 1 /\ cfg = NoCfg /\ pos = 0 /\ eof = FALSE /\ errSeen = "none" /\ last = NoLast /\ api = NoApi /\ bad = ""
         /\ TLCSet(1, 1)

Reset == /\ l <= Len(Rec) /\ Ev.ev = "Reset"
         /\ cfg' = Ev /\ pos' = 0 /\ eof' = FALSE /\ errSeen' = "none" /\ last' = NoLast /\ api' = NoApi /\ bad' = ""

\* contracts of one inner call, given the previous one (readers)
ReadContract(req, ret, off) ==
  IF ret > req THEN "returned more than requested"
  ELSE IF off + (IF ret > 0 THEN ret ELSE 0) > cfg.len THEN "read beyond the end of the source"
  ELSE IF cfg.exact /\ last.ret = -1 /\ last.k = "Interrupted" /\ (req # last.req \/ off # last.off)
       THEN "interrupted call not retried with the same request"
  ELSE IF cfg.exact /\ last.ret > 0 /\ last.ret < last.req /\ last.inj /\ (req # last.req - last.ret \/ off # last.off + last.ret)
       THEN "short read not continued with the remainder"
  ELSE ""

IoRead(req, ret, k, off, inj) ==
  /\ pos' = (IF ret > 0 THEN off + ret ELSE pos)
  /\ eof' = (eof \/ (ret = 0 /\ req > 0))
  /\ errSeen' = (IF ret = -1 /\ k # "Interrupted" /\ errSeen = "none" THEN k ELSE errSeen)
  /\ last' = [req |-> req, ret |-> ret, off |-> off, k |-> k, inj |-> inj]
  /\ bad' = (IF bad # "" THEN bad ELSE ReadContract(req, ret, off))

IoWrite(req, ret, k, off, inj) ==
  /\ pos' = (IF ret > 0 THEN pos + ret ELSE pos)
  /\ eof' = eof
  /\ errSeen' = (IF ret = -1 /\ k # "Interrupted" /\ errSeen = "none" THEN k
                 ELSE IF ret = 0 /\ req > 0 /\ errSeen = "none" THEN "WriteZero" ELSE errSeen)
  /\ last' = [req |-> req, ret |-> ret, off |-> off, k |-> k, inj |-> inj]
  /\ bad' = (IF bad # "" THEN bad
             ELSE IF ret > req THEN "accepted more than offered"
             ELSE IF off # pos THEN "sink offset does not match the accepted bytes"
             ELSE "")

Io == /\ l <= Len(Rec) /\ Ev.ev = "Io"
      /\ IF Ev.d = "r" THEN IoRead(Ev.req, Ev.ret, Ev.k, Ev.off, Ev.inj)
         ELSE IF Ev.d = "w" THEN IoWrite(Ev.req, Ev.ret, Ev.k, Ev.off, Ev.inj)
         ELSE UNCHANGED <<pos, eof, errSeen, last, bad>>          \* seek / flush
      /\ UNCHANGED <<cfg, api>>

Api == /\ l <= Len(Rec) /\ Ev.ev = "Api"
       /\ api' = [res |-> Ev.res, k |-> Ev.k, n |-> Ev.n, eq |-> Ev.eq]
       /\ UNCHANGED <<cfg, pos, eof, errSeen, last, bad>>

TNext == l' = l + 1 /\ (Reset \/ Io \/ Api)
TSpec == TInit /\ [][TNext]_vars

\* ------------------------------------------------------------------ the C05 properties on the reconstructed state
Seen == api.res # "none"
Truncated == cfg.half = "r" /\ cfg.len < cfg.need
TruncationIsError == (Seen /\ Truncated) => api.res = "err"
ErrorKindPropagates == (Seen /\ cfg.half = "r" /\ errSeen # "none") => (api.res = "err" /\ api.k = errSeen)
SinkErrorReturned == (Seen /\ cfg.half = "w" /\ errSeen # "none") => api.res = "err"
NoUnboundedOutput == (Seen /\ cfg.half = "r") => api.n <= cfg.declared
NoWrongSuccess == (Seen /\ api.res = "ok") => api.eq
ShortIoTransparent == (Seen /\ cfg.benign) => (api.res = "ok" /\ api.eq)
\* end of input reported once stays end of input: a reader that got 0 bytes and no error cannot succeed on a cut stream
EofNotData == (Seen /\ cfg.half = "r" /\ eof /\ Truncated) => api.res = "err"
Props == TruncationIsError /\ ErrorKindPropagates /\ SinkErrorReturned /\ NoUnboundedOutput /\ NoWrongSuccess
         /\ ShortIoTransparent /\ EofNotData
\* implementation-shaped layer contracts (drift, not violation)
Contracts == Seen => bad = ""

Track == (IF l > TLCGet(1) THEN TLCSet(1, l) ELSE TRUE)
Accepted ==
  /\ PrintT(<<"TRACE-REACHED", TLCGet(1) - 1, "OF", Len(Rec)>>)
  /\ IF TLCGet(1) = Len(Rec) + 1 THEN TRUE
     ELSE Print(<<"REJECTED after event", TLCGet(1) - 1, "next", Rec[TLCGet(1)]>>, FALSE)
=============================================================================
