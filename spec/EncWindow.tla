------------------------------ MODULE EncWindow ------------------------------
(* LZ encoder sliding window, look-ahead accounting and LZMA2 chunk copy-back.

   Line-by-line transcription (buffer coordinates as in the code) of
     src/lz/lz_encoder.rs   LZEncoder::new / get_buf_size, set_preset_dict, fill_window, move_window,
                            process_pending_bytes, move_pos, set_flushing, set_finishing,
                            has_enough_data, copy_uncompressed
     src/lz/hc4.rs, bt4.rs  move_pos (required_for_flushing / required_for_finishing), skip
     src/enc/encoder.rs     encode_init, encode_symbol (read_ahead / uncompressed_size accounting),
                            reset, encode_for_lzma1, encode_for_lzma2
     src/enc/lzma2_writer.rs write, flush, finish, write_chunk, start_independent_chunk
     src/enc/lzma_writer.rs  write, finish
   What the encoder decides (symbol lengths, how far the mode looked ahead, whether a chunk
   compressed) is not modelled: those choices are PARAMETERS of the actions (EncodeP(len, ra2),
   ChunkClose(kind)); the model checker quantifies over them, the trace specification binds them
   from the events of a real run. Constants are scaled for model checking and REAL for trace
   validation (all real values are below 2^31).

   Variant constant PassExtra: FALSE = as found (LZMAEncoder::new never receives
   get_extra_size_before, so keep_size_before = dict + the mode's own extra), TRUE = repaired
   (LZMA2 passes max(mode extra, RawMax - dict) as liblzma / XZ for Java do). *)
EXTENDS Integers, Sequences, TLC

CONSTANTS
  Dict,        \* dict_size
  ModeBefore,  \* FastEncoderMode / NormalEncoderMode ::EXTRA_SIZE_BEFORE
  ExtraAfter,  \* ... ::EXTRA_SIZE_AFTER
  MatchMax,    \* MATCH_LEN_MAX
  Reserve,     \* reserve_size of get_buf_size
  Align,       \* MOVE_BLOCK_ALIGN
  PosAlign,    \* 2^max(pb, lp): pos_state / literal position bits are taken from the BUFFER position (lz.get_pos()), so
               \* every window move must be a multiple of it or encoder and decoder disagree about the position
  RawMax,      \* lzma2_writer.rs COMPRESSED_SIZE_MAX
  CLimit,      \* a chunk can hit the compressed-size limit once this many bytes are in it
  RawCap,      \* largest uncompressed_size (before adding the read-ahead) of a chunk that did not compress
  ULimit,      \* LZMA2_UNCOMPRESSED_LIMIT
  ReqFlush, ReqFinish,   \* match finder: HC4 (4,4), BT4 (nice_len,4)
  SkipLooksBack,         \* match finder: skip() compares bytes up to Dict back (BT4) or only hashes (HC4)
  MaxLook,     \* max number of positions past the start of a symbol the mode examines (len + read_ahead after)
  MaxRA,       \* max read_ahead left after a symbol
  Writer,      \* "lzma2" | "lzma1"
  PassExtra,   \* variant, see above
  MoveKeepsPending,    \* variant: move_window also retains the history of the positions still pending (FALSE = as found)
  NiceLen,             \* nice_len option (<= MatchMax)
  KeepAfterUsesNice,   \* variant: keep_size_after = extra_size_after + nice_len (regressed) instead of + match_len_max (FALSE = as built)
  MaskAfterPending,    \* variant: the alignment mask is applied after pending_size was subtracted (TRUE = as built) or before
  PendingAssertStrict, \* variant: process_pending_bytes asserts pending_size < old (TRUE = as found) instead of <=
  ChunkSize,   \* LZMA2Options::chunk_size clamped to >= Dict; 0 = none
  PresetLen,   \* bytes of preset dictionary copied by set_preset_dict (0 = none)
  N, MaxWrite, \* model checking only: total bytes the caller writes, max bytes per write call
  TraceMode    \* TRUE: guards that only bound the model checker's choices are dropped

Max(a, b) == IF a >= b THEN a ELSE b
Min(a, b) == IF a <= b THEN a ELSE b

ExtraBefore == IF PassExtra /\ Writer = "lzma2" THEN Max(ModeBefore, Max(RawMax - Dict, 0)) ELSE ModeBefore
KeepBefore == ExtraBefore + Dict
KeepAfter  == ExtraAfter + (IF KeepAfterUsesNice THEN NiceLen ELSE MatchMax)
BufSize    == KeepBefore + KeepAfter + Reserve

VARIABLES
  readPos, readLimit, writePos, pending, finishing,   \* LZEncoderData
  readAhead, uncomp,                                    \* LZMAEncData read_ahead, uncompressed_size
  wpend, ctotal,                                        \* LZMA2Writer pending_size, uncompressed_size
  pc, left,                                             \* control: where inside write()/flush()/finish(); bytes left of the current write
  base, total, emitted,                                 \* ghosts: stream offset of buf[0]; bytes accepted; bytes put into chunks
  bad                                                   \* ghost: first violated bound
vars == <<readPos, readLimit, writePos, pending, finishing, readAhead, uncomp, wpend, ctotal, pc, left, base, total, emitted, bad>>

St == [rp |-> readPos, rl |-> readLimit, wp |-> writePos, pe |-> pending]

Flag(b, cond, name) == IF b = "none" /\ cond THEN name ELSE b

\* ---------------------------------------------------------------- LZEncoderData primitives
\* move_pos: read_pos += 1; the position stays pending when too little look-ahead is buffered
MovePos(s, fin) ==
  LET rp == s.rp + 1
      avail == s.wp - rp
  IN IF avail < ReqFlush /\ (avail < ReqFinish \/ ~fin)
       THEN [s EXCEPT !.rp = rp, !.pe = s.pe + 1]
       ELSE [s EXCEPT !.rp = rp]

RECURSIVE SkipRec(_, _, _)
SkipRec(s, k, fin) == IF k = 0 THEN s ELSE SkipRec(MovePos(s, fin), k - 1, fin)

\* closed form of k calls of move_pos with write_pos fixed (checked against SkipRec by SkipLemma):
\* the i-th call sees avail = wp - rp - i; it is pending iff avail < T
Skip(s, k, fin) ==
  LET T == IF fin THEN ReqFinish ELSE ReqFlush
      good == Max(0, Min(k, s.wp - s.rp - T))      \* calls with avail >= T
  IN [s EXCEPT !.rp = s.rp + k, !.pe = s.pe + (k - good)]

SkipLemma == \A rp \in -1..4, wp \in 0..8, pe \in 0..2, k \in 0..5, fin \in BOOLEAN :
               (rp + k < wp) => LET s == [rp |-> rp, rl |-> 0, wp |-> wp, pe |-> pe]
                                IN Skip(s, k, fin) = SkipRec(s, k, fin)

\* process_pending_bytes (the positions are handed to the match finder again: skip(pending))
ProcessPending(s, fin) ==
  IF s.pe > 0 /\ s.rp < s.rl
    THEN Skip([s EXCEPT !.rp = s.rp - s.pe, !.pe = 0], s.pe, fin)
    ELSE s

\* the debug assertion at the end of process_pending_bytes
PendingAssertFails(s, fin) ==
  s.pe > 0 /\ s.rp < s.rl /\ (IF PendingAssertStrict THEN ProcessPending(s, fin).pe >= s.pe ELSE ProcessPending(s, fin).pe > s.pe)

\* lowest buffer index whose history the match finder may look back from while re-hashing pending positions
PendingLow(s) == IF s.pe > 0 /\ s.rp < s.rl THEN s.rp - s.pe + 1 ELSE s.rp + 1

HasEnough(already) == readPos - already < readLimit
Started == readPos # -1                       \* LZEncoderData::is_started
Gated == readLimit <= writePos - KeepAfter    \* neither flushing nor finishing: full look-ahead required

\* ---------------------------------------------------------------- initial state (after the constructors)
InitS ==
  LET s0 == [rp |-> -1, rl |-> -1, wp |-> PresetLen, pe |-> 0]
  IN IF PresetLen > 0 THEN Skip(s0, PresetLen, FALSE) ELSE s0     \* set_preset_dict: write_pos += n; skip(n)
Init ==
  /\ readPos = InitS.rp /\ readLimit = -1 /\ writePos = InitS.wp /\ pending = InitS.pe /\ finishing = FALSE
  /\ readAhead = -1 /\ uncomp = 0 /\ wpend = 0 /\ ctotal = 0
  /\ pc = "idle" /\ left = 0 /\ base = 0 /\ total = 0 /\ emitted = 0 /\ bad = "none"
\* back to the initial state (trace validation of concatenated runs)
ResetAll ==
  /\ readPos' = InitS.rp /\ readLimit' = -1 /\ writePos' = InitS.wp /\ pending' = InitS.pe /\ finishing' = FALSE
  /\ readAhead' = -1 /\ uncomp' = 0 /\ wpend' = 0 /\ ctotal' = 0
  /\ pc' = "idle" /\ left' = 0 /\ base' = 0 /\ total' = 0 /\ emitted' = 0 /\ bad' = "none"

\* ---------------------------------------------------------------- caller
CallWrite(n) ==
  /\ pc = "idle" /\ ~finishing /\ n >= 0
  /\ (TraceMode \/ n <= N - total)
  /\ left' = n
  /\ pc' = IF n = 0 THEN "idle" ELSE "loop"
  /\ UNCHANGED <<readPos, readLimit, writePos, pending, finishing, readAhead, uncomp, wpend, ctotal, base, total, emitted, bad>>

ShouldIndep == Writer = "lzma2" /\ ChunkSize > 0 /\ ctotal >= ChunkSize

\* fill_window (with move_window), then pending_size += used
Fill ==
  /\ pc = "loop" /\ ~ShouldIndep
  /\ LET s0 == St
         moved == s0.rp >= BufSize - KeepAfter
         keepPe == IF MoveKeepsPending THEN s0.pe ELSE 0
         off0 == s0.rp + 1 - KeepBefore - keepPe
         offA == s0.rp + 1 - KeepBefore
         off == IF ~moved THEN 0
                ELSE IF MaskAfterPending THEN off0 - (off0 % Align)          \* (.. - pending_size) & MOVE_BLOCK_ALIGN_MASK
                ELSE (offA - (offA % Align)) - keepPe
         s1 == [s0 EXCEPT !.rp = s0.rp - off, !.rl = s0.rl - off, !.wp = s0.wp - off]
         len == Min(left, BufSize - s1.wp)
         wp2 == s1.wp + len
         s2 == [s1 EXCEPT !.wp = wp2, !.rl = IF wp2 >= KeepAfter THEN wp2 - KeepAfter ELSE s1.rl]
         s3 == ProcessPending(s2, finishing)
         b1 == Flag(bad, moved /\ (off0 < 0 \/ s0.wp - off < 0), "move_offset_negative")
         \* C15 / C01: positions re-hashed after the move look back up to Dict bytes (BT4::skip compares bytes)
         b2 == Flag(Flag(b1, SkipLooksBack /\ base + off > 0 /\ PendingLow(s2) - Dict < 0, "pending_lookback_before_buffer"),
                    PendingAssertFails(s2, finishing), "pending_assert")
     IN /\ readPos' = s3.rp /\ readLimit' = s3.rl /\ writePos' = s3.wp /\ pending' = s3.pe
        /\ base' = base + off
        /\ left' = left - len /\ total' = total + len
        /\ wpend' = IF Writer = "lzma2" THEN wpend + len ELSE wpend
        /\ bad' = b2
  /\ pc' = "enc"
  /\ UNCHANGED <<finishing, readAhead, uncomp, ctotal, emitted>>

\* may another symbol be encoded: loop conditions of encode_for_lzma2 / encode_for_lzma1
CanEncode ==
  /\ IF Started THEN HasEnough(readAhead + 1) ELSE HasEnough(0)
  /\ (Writer = "lzma2" => uncomp <= ULimit)

\* one encode_init or encode_symbol: a symbol of `len` bytes, read_ahead = ra2 afterwards
EncodeP(len, ra2) ==
  /\ pc \in {"enc", "flushenc", "indep"}
  /\ CanEncode
  /\ IF ~Started
       THEN /\ len = 1 /\ ra2 = -1                 \* encode_init: skip(1), literal, read_ahead back to -1
            /\ LET s == Skip(St, 1, finishing)
               IN /\ readPos' = s.rp /\ pending' = s.pe
                  /\ bad' = Flag(bad, Gated /\ writePos - s.rp < MatchMax, "lookahead_gate")
            /\ readAhead' = -1 /\ uncomp' = uncomp + 1
       ELSE LET k == len + ra2 - readAhead          \* number of move_pos calls (find_matches / skip) in this symbol
                symStart == readPos - readAhead      \* buffer index of the first byte of the symbol
                s == Skip(St, k, finishing)
            IN /\ len >= 1 /\ ra2 >= -1
               /\ k >= (IF readAhead = -1 THEN 1 ELSE 0)
               /\ symStart + len <= writePos         \* the symbol lies inside buffered data
               /\ readPos + k < writePos             \* the match finder stays inside buffered data
               /\ (TraceMode \/ (len <= MatchMax /\ ra2 <= MaxRA /\ len + ra2 <= MaxLook))
               /\ readPos' = s.rp /\ pending' = s.pe
               /\ readAhead' = ra2 /\ uncomp' = uncomp + len
               \* C13: outside flush/finish every position is consumed with the full look-ahead buffered
               /\ bad' = Flag(Flag(bad, Gated /\ k > 0 /\ writePos - s.rp < MatchMax, "lookahead_gate"),
                              \* C15: sources of matches / rep matches / matched literals lie inside the buffer
                              base > 0 /\ symStart - Dict < 0, "match_source_before_buffer")
  /\ UNCHANGED <<readLimit, writePos, finishing, wpend, ctotal, pc, left, base, total, emitted>>
Encode == \E len \in 1..MatchMax, ra2 \in -1..MaxRA : EncodeP(len, ra2)

\* a run of nsym symbols of L bytes in total (trace validation of aggregated events only)
EncodeRunP(nsym, L, ra2) ==
  /\ pc \in {"enc", "flushenc", "indep"} /\ TraceMode
  /\ CanEncode /\ nsym >= 1 /\ L >= nsym
  /\ LET k == L + ra2 - readAhead
         symStart == IF Started THEN readPos - readAhead ELSE 0
         s == Skip(St, k, finishing)
     IN /\ k >= (IF readAhead = -1 THEN 1 ELSE 0)
        /\ symStart + L <= writePos /\ readPos + k < writePos /\ ra2 >= -1
        /\ readPos' = s.rp /\ pending' = s.pe /\ readAhead' = ra2 /\ uncomp' = uncomp + L
        /\ bad' = Flag(Flag(bad, Gated /\ writePos - s.rp < MatchMax, "lookahead_gate"),
                       base > 0 /\ symStart - Dict < 0, "match_source_before_buffer")
  /\ UNCHANGED <<readLimit, writePos, finishing, wpend, ctotal, pc, left, base, total, emitted>>

\* encode_for_lzma2 returned false / encode_for_lzma1 returned: not enough data; back to the write loop
EncodeStall ==
  /\ pc = "enc"
  /\ ~(IF Started THEN HasEnough(readAhead + 1) ELSE HasEnough(0))
  /\ pc' = IF left > 0 THEN "loop" ELSE "idle"
  /\ UNCHANGED <<readPos, readLimit, writePos, pending, finishing, readAhead, uncomp, wpend, ctotal, left, base, total, emitted, bad>>

\* LZMAWriter has no chunks: a finish ends once everything is encoded
Finish1Done ==
  /\ Writer = "lzma1" /\ pc = "flushenc"
  /\ ~(IF Started THEN HasEnough(readAhead + 1) ELSE HasEnough(0))
  /\ pc' = "idle"
  /\ bad' = Flag(bad, base + readPos - readAhead - PresetLen # total, "lzma1_bytes_not_encoded")
  /\ UNCHANGED <<readPos, readLimit, writePos, pending, finishing, readAhead, uncomp, wpend, ctotal, left, base, total, emitted>>

\* write_chunk: the compressed or uncompressed limit was hit, or flush / finish / start_independent_chunk drain the encoder
ChunkClose(kind) ==
  /\ Writer = "lzma2" /\ pc \in {"enc", "flushenc", "indep"}
  /\ LET full == uncomp > ULimit \/ uncomp >= CLimit
         stalled == ~(IF Started THEN HasEnough(readAhead + 1) ELSE HasEnough(0))
     IN IF pc = "enc" THEN (TraceMode \/ full) ELSE (wpend > 0 /\ (TraceMode \/ full \/ stalled))
  /\ IF kind = "lzma"
       THEN /\ wpend' = wpend - uncomp /\ ctotal' = ctotal + uncomp /\ emitted' = emitted + uncomp
            /\ bad' = Flag(bad, uncomp <= 0, "empty_chunk")
            /\ UNCHANGED readAhead
       ELSE \* LZMAEncoder::reset: uncompressed_size += read_ahead + 1; read_ahead = -1; then copy_uncompressed
            LET u == uncomp + readAhead + 1
            IN /\ (TraceMode \/ uncomp <= RawCap)
               /\ bad' = Flag(Flag(bad, u <= 0, "empty_chunk"), readPos + 1 - u < 0, "copy_before_buffer")
               /\ wpend' = wpend - u /\ ctotal' = ctotal + u /\ emitted' = emitted + u
               /\ readAhead' = -1
  /\ uncomp' = 0
  /\ pc' = CASE pc = "enc" -> (IF left > 0 THEN "loop" ELSE "idle")
             [] pc = "flushenc" -> (IF wpend' > 0 THEN "flushenc" ELSE "idle")
             [] pc = "indep" -> "indep"
  /\ UNCHANGED <<readPos, readLimit, writePos, pending, finishing, left, base, total>>

\* flush() / finish(): set_flushing / set_finishing, then drain
CallFlush(fin) ==
  /\ pc = "idle" /\ ~finishing
  /\ (fin \/ Writer = "lzma2")                  \* LZMAWriter::flush is a no-op
  /\ (TraceMode \/ (fin => total = N))
  /\ LET s0 == [St EXCEPT !.rl = writePos - 1]
         s == ProcessPending(s0, fin)
     IN /\ readPos' = s.rp /\ readLimit' = s.rl /\ pending' = s.pe
        /\ bad' = Flag(bad, PendingAssertFails(s0, fin), "pending_assert")
  /\ finishing' = fin
  /\ pc' = IF Writer = "lzma1" \/ wpend > 0 THEN "flushenc" ELSE "idle"
  /\ UNCHANGED <<writePos, readAhead, uncomp, wpend, ctotal, left, base, total, emitted>>

\* start_independent_chunk, first half: set_flushing and drain
StartIndep ==
  /\ pc = "loop" /\ ShouldIndep
  /\ LET s0 == [St EXCEPT !.rl = writePos - 1]
         s == ProcessPending(s0, FALSE)
     IN /\ readPos' = s.rp /\ readLimit' = s.rl /\ pending' = s.pe
        /\ bad' = Flag(bad, PendingAssertFails(s0, FALSE), "pending_assert")
  /\ pc' = "indep"
  /\ UNCHANGED <<writePos, finishing, readAhead, uncomp, wpend, ctotal, left, base, total, emitted>>

\* second half: a brand-new LZMAEncoder (the preset dictionary is not applied again)
IndepNew ==
  /\ pc = "indep" /\ wpend = 0
  /\ readPos' = -1 /\ readLimit' = -1 /\ writePos' = 0 /\ pending' = 0
  /\ readAhead' = -1 /\ uncomp' = 0 /\ ctotal' = 0
  /\ base' = 0   \* ghost restarts with the new buffer
  /\ pc' = "fillnew"
  /\ UNCHANGED <<finishing, wpend, left, total, emitted, bad>>

\* the fill_window that follows start_independent_chunk in the same loop iteration
FillNew ==
  /\ pc = "fillnew"
  /\ LET len == Min(left, BufSize)
     IN /\ writePos' = len
        /\ readLimit' = IF len >= KeepAfter THEN len - KeepAfter ELSE readLimit
        /\ left' = left - len /\ total' = total + len /\ wpend' = wpend + len
  /\ pc' = "enc"
  /\ UNCHANGED <<readPos, pending, finishing, readAhead, uncomp, ctotal, base, emitted, bad>>

\* named so that TLC's per-action coverage tells the situations apart (vacuity guards of the checks)
WillMove == readPos >= BufSize - KeepAfter
FillMove == WillMove /\ Fill
FillStay == ~WillMove /\ Fill
FillMovePending == WillMove /\ pending > 0 /\ Fill      \* the window moves while positions are still pending (after a flush)
CloseRaw == pc # "idle" /\ ChunkClose("raw")
CloseLzma == pc # "idle" /\ ChunkClose("lzma")
FlushCall == pc = "idle" /\ CallFlush(FALSE)
FinishCall == pc = "idle" /\ CallFlush(TRUE)
FlushPending == pending > 0 /\ readPos < writePos - 1 /\ FlushCall   \* process_pending_bytes takes its branch in set_flushing
Next ==
  \/ (\E n \in 1..MaxWrite : CallWrite(n))
  \/ FillMove \/ FillStay \/ FillMovePending \/ Encode \/ EncodeStall \/ Finish1Done
  \/ CloseLzma \/ CloseRaw
  \/ FlushCall \/ FinishCall
  \/ StartIndep \/ IndepNew \/ FillNew
Spec == Init /\ [][Next]_vars

\* ---------------------------------------------------------------- properties
NoBad == bad = "none"
\* the individual bounds, named as in DESIGN.md section 4.3
CopyInRange        == bad # "copy_before_buffer"            \* C01: raw chunk starts inside the buffer
MatchSourceInRange == bad \notin {"match_source_before_buffer", "pending_lookback_before_buffer"}   \* C15 (C01)
LookAheadGate      == bad # "lookahead_gate"                 \* C13 / C07
MoveInRange        == bad # "move_offset_negative"
\* C01: buffer positions and stream positions agree modulo 2^pb / 2^lp after any number of window moves
PosStateAligned    == base % PosAlign = 0
NoEmptyChunk       == bad # "empty_chunk"
PendingAssertHolds == bad # "pending_assert"                 \* C01: the crate's own debug assertion

IndicesInRange ==
  /\ readPos >= -1 /\ writePos >= 0 /\ writePos <= BufSize /\ pending >= 0
  /\ (writePos = 0 \/ readLimit <= writePos - 1)
  /\ (writePos = 0 \/ readPos < writePos)
  /\ readAhead >= -1 /\ readPos - readAhead >= 0
  /\ uncomp >= 0
\* after a move every byte within keep_size_before behind read_pos is still in the buffer
HistoryRetained == base > 0 => readPos + 1 >= KeepBefore
\* ExtendInRange / FastRejectClamp (C15): forward reads are clamped to data that is buffered
ExtendInRange == readPos < BufSize /\ (Started => writePos - readPos >= 1)
\* LZMA2Writer::pending_size = bytes accepted - bytes emitted in chunks; zero after flush / finish
AllBytesAccounted ==
  /\ (Writer = "lzma2" => wpend = total - emitted)
  /\ (Writer = "lzma2" /\ pc = "idle" /\ readLimit = writePos - 1 => wpend = 0)
  /\ (Writer = "lzma2" /\ finishing /\ pc = "idle" => wpend = 0 /\ emitted = total)
\* encoder never stalls with bytes it still owes (flush / finish loops terminate)
NoStuck == (pc \in {"flushenc", "indep"} /\ (Writer = "lzma1" \/ wpend > 0)) =>
             ENABLED (Encode \/ ChunkClose("lzma") \/ Finish1Done)
TypeOK == /\ pc \in {"idle", "loop", "enc", "flushenc", "indep", "fillnew"}
          /\ finishing \in BOOLEAN /\ left >= 0 /\ wpend >= 0 /\ total >= 0
=============================================================================
