------------------------ MODULE Trace_LzipContainer ------------------------
(* Validation of real LZIPWriter runs against LzipContainer (same scheme as Trace_XzContainer):

     Reset(dict, limit, cz)  Write(n)*  Finish  Rec(record)*  End(observed oracle fields)

   Rec events are the records of the independent strict parser (harness/src/strict.rs parse_lz).
   Shaped = TRUE : the writer actions are replayed with real byte counts and every observed record must
                   equal the predicted one (member boundaries, data sizes, member sizes, dictionary byte).
   Shaped = FALSE: property-level invariants on the real output; violations are printed as TVIOL lines and
                   counted, the postcondition fails when the count is not zero. *)
EXTENDS LzipContainer, Json, IOUtils
CONSTANT Shaped
Rec == ndJsonDeserialize(IOEnv.TRACE)
VARIABLES l, obs, run
tvars == <<vars, l, obs, run>>
Ev == Rec[l]
Is(name) == l <= Len(Rec) /\ Ev.ev = name

TInit == InitWith([dict |-> 4096, limit |-> 0, far |-> FALSE, cz |-> <<>>]) /\ l = 1 /\ obs = <<>>
         /\ run = [id |-> "none", limit |-> 0, dict |-> 4096, ended |-> FALSE] /\ TLCSet(1, 1) /\ TLCSet(3, 0)

Reset ==
  /\ Is("Reset")
  /\ cfg' = [dict |-> Ev.dict, limit |-> Ev.limit, far |-> FALSE, cz |-> Ev.cz]
  /\ ws' = W0 /\ calls' = <<>> /\ file' = <<>> /\ phase' = "write" /\ rd' = RD0 /\ obs' = <<>> /\ prev' = P0
  /\ run' = [id |-> Ev.id, limit |-> Ev.limit, dict |-> Ev.dict, ended |-> FALSE]

Keep == UNCHANGED <<obs, run>>
Skip == UNCHANGED <<vars, obs, run>>
WriteEv  == Is("Write")  /\ (IF Shaped THEN Write(Ev.n) /\ Keep ELSE Skip)
FlushEv  == Is("Flush")  /\ Skip          \* LZIPWriter::flush changes no container field
FinishEv == Is("Finish") /\ (IF Shaped THEN Finish /\ Keep ELSE Skip)

Match(m, e) ==
  /\ m.k = e.k
  /\ CASE m.k = "Hdr"     -> m.dictbyte = e.dictbyte /\ e.magic_ok /\ e.version = 1
       [] m.k = "Body"    -> m.csize = e.csize
       [] m.k = "Trailer" -> m.data_size = e.data_size /\ m.member_size = e.member_size
       [] OTHER           -> TRUE

RecEv ==
  /\ Is("Rec")
  /\ Shaped => (phase # "write" /\ Len(obs) < Len(file) /\ Match(file[Len(obs) + 1], Ev))
  /\ obs' = Append(obs, Ev) /\ UNCHANGED <<vars, run>>

EndEv ==
  /\ Is("End")
  /\ Shaped => Len(obs) = Len(file)
  /\ run' = [run EXCEPT !.ended = TRUE] /\ UNCHANGED <<vars, obs>>

TNext == l' = l + 1 /\ (Reset \/ WriteEv \/ FlushEv \/ FinishEv \/ RecEv \/ EndEv)
TSpec == TInit /\ [][TNext]_tvars

AtEnd == l > 1 /\ Rec[l - 1].ev = "End" /\ run.ended
E == Rec[l - 1]
Viol(name) == PrintT(<<"TVIOL", name, run.id>>) /\ TLCSet(3, TLCGet(3) + 1)
Ms == MembersOf(obs, 1)
\* C02 / C03: well-formed members whose header covers the dictionary the encoder used
TWellFormed == AtEnd => ((WellFormedF(obs) /\ DictCoversF(obs, run.dict)) \/ Viol("WellFormed"))
TContent    == AtEnd => ((WellFormedF(obs) => SumSeq(Ms, 1) = E.input_len) \/ Viol("Content"))
TRoundTrip  == AtEnd => ((E.rt_ok /\ E.rt_equal) \/ Viol("RoundTrip"))
TRef        == AtEnd => ((E.ref_ok /\ E.ref_equal) \/ Viol("Ref"))
\* C12: the multi-threaded reader (backward scan) returns the members in file order, and counts them (C18)
TMtOrder    == AtEnd => ((~(E.rt_ok /\ E.rt_equal) \/ (E.mt_ok /\ E.mt_equal)) \/ Viol("MtOrder"))
TMtCount    == AtEnd => ((~WellFormedF(obs) \/ E.input_len = 0 \/ E.mt_members = Len(Ms)) \/ Viol("MtCount"))
\* C18: every member <= max(member_size, dict)
TSizeLimit  == AtEnd => ((run.limit = 0 \/ ~WellFormedF(obs) \/ \A j \in 1..Len(Ms) : Ms[j] <= Max(run.limit, run.dict)) \/ Viol("SizeLimit"))

Track == (IF l > TLCGet(1) THEN TLCSet(1, l) ELSE TRUE)
Accepted ==
  /\ PrintT(<<"TRACE-REACHED", TLCGet(1) - 1, "OF", Len(Rec)>>)
  /\ PrintT(<<"TVIOL-COUNT", TLCGet(3)>>)
  /\ IF TLCGet(1) = Len(Rec) + 1 THEN TRUE
     ELSE Print(<<"REJECTED after event", TLCGet(1) - 1, "next", Rec[TLCGet(1)]>>, FALSE)
  /\ TLCGet(3) = 0
=============================================================================
