---------------------------- MODULE Trace_LzmaSymbols ----------------------------
(* Trace validation of per-symbol events recorded by hook H3 from real encodes (src/enc/encoder.rs) and real
   decodes (src/decoder.rs) against the transcriptions of LzmaSymbols.

   NDJSON file named by the environment variable TRACE, one object per line:
     {"side":"E"|"D", "kind":0 lit|1 match|2 long rep|3 short rep|9 coder reset,
      "len":n, "idx": distance (match) / rep index (rep) / literal mode (-1 plain, else distance used),
      "st": state after, "r":[reps after]}
     {"side":"X"}   starts a new run (both machines back to M0); the file also ends with such a line
   Within a run all encoder events come first, then the decoder events of the stream the encoder produced.

   Accepted iff
     (conformance)  every event's logged post-state is the image, under the transcription of ITS side, of the
                    previous event's post-state, and literals use the coding mode the transcription predicts;
     (agreement)    the i-th decoder event has the kind, length, idx, state and reps of the i-th encoder event:
                    EncState_i = DecState_i /\ EncReps_i = DecReps_i (DESIGN.md 4.6: property-level for C01).
   With CheckAgree = FALSE only conformance is checked (used to tell a model drift from a divergence). *)
EXTENDS LzmaSymbols, Json, IOUtils
CONSTANT CheckAgree

Rec == ndJsonDeserialize(IOEnv.TRACE)
VARIABLES l, te, td, x0, di, ne
tvars == <<l, te, td, x0, di, ne, vars>>
Ev == Rec[l]

Obs(e) == [st |-> e.st, r |-> <<e.r[1], e.r[2], e.r[3], e.r[4]>>]

TInit == Init /\ l = 1 /\ te = M0 /\ td = M0 /\ x0 = 0 /\ di = 1 /\ ne = 0 /\ TLCSet(1, 1)

\* image of an encoder event: literals and (rep) matches go through encode_symbol's `back`; the end marker
\* (idx = -1) calls encode_match directly
EncImg(m, e) ==
  CASE e.kind = 0 -> EncStep(m, -1, 1)
    [] e.kind = 1 -> IF e.idx = Marker THEN EncMatch(m, Marker) ELSE EncStep(m, e.idx + 4, e.len)
    [] e.kind = 2 -> EncStep(m, e.idx, e.len)
    [] e.kind = 3 -> EncStep(m, e.idx, 1)
    [] e.kind = 9 -> M0

DecImg(m, e) ==
  CASE e.kind = 0 -> DecLit(m)
    [] e.kind = 1 -> DecMatch(m, e.idx)
    [] e.kind = 2 -> DecLongRep(m, e.idx)
    [] e.kind = 3 -> DecShortRep(m)
    [] e.kind = 9 -> M0

WellFormed(e) ==
  /\ e.kind \in {0, 1, 2, 3, 9}
  /\ e.kind = 0 => e.len = 1
  /\ e.kind = 3 => (e.len = 1 /\ e.idx = 0)
  /\ e.kind = 2 => (e.len >= 2 /\ e.idx \in 0..3)
  /\ e.kind = 1 => e.len >= 2

TEnc ==
  /\ l <= Len(Rec) /\ Ev.side = "E" /\ WellFormed(Ev)
  /\ Ev.kind = 0 => Ev.idx = EncLitMode(te)
  /\ te' = EncImg(te, Ev) /\ te' = Obs(Ev)
  /\ ne' = ne + 1 /\ UNCHANGED <<td, x0, di>>

\* the encoder events of a run are the lines x0+1 .. ; the di-th decoder event is compared with line x0+di
TDec ==
  /\ l <= Len(Rec) /\ Ev.side = "D" /\ WellFormed(Ev)
  /\ Ev.kind = 0 => Ev.idx = DecLitMode(td)
  /\ td' = DecImg(td, Ev) /\ td' = Obs(Ev)
  /\ CheckAgree => /\ x0 + di <= Len(Rec)
                   /\ LET e == Rec[x0 + di] IN
                      /\ e.side = "E"
                      /\ e.kind = Ev.kind /\ e.len = Ev.len /\ e.idx = Ev.idx
                      /\ Obs(e) = Obs(Ev)
  /\ di' = di + 1 /\ UNCHANGED <<te, x0, ne>>

TReset ==
  /\ l <= Len(Rec) /\ Ev.side = "X"
  /\ (CheckAgree /\ di > 1) => di - 1 = ne      \* the decoder saw every symbol the encoder produced
  /\ te' = M0 /\ td' = M0 /\ x0' = l /\ di' = 1 /\ ne' = 0

TNext == l' = l + 1 /\ (TEnc \/ TDec \/ TReset) /\ UNCHANGED vars
TSpec == TInit /\ [][TNext]_tvars

Track == (IF l > TLCGet(1) THEN TLCSet(1, l) ELSE TRUE)
Accepted ==
  /\ PrintT(<<"TRACE-REACHED", TLCGet(1) - 1, "OF", Len(Rec)>>)
  /\ IF TLCGet(1) = Len(Rec) + 1 THEN TRUE
     ELSE Print(<<"REJECTED after event", TLCGet(1) - 1, "next", Rec[TLCGet(1)]>>, FALSE)
=============================================================================
