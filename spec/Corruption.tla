------------------------------ MODULE Corruption ------------------------------
(* Corrupted XZ / LZIP files are never returned as valid different data (property C04; DESIGN.md 4.8, 6/C04).

   A well-formed file is a sequence of abstract records
     XZ   : SH  (BH DATA PAD CHECK)*  INDEX FOOTER  [SPAD SH ... FOOTER]
     LZIP : (LHDR LBODY LTRL)+
   each record [k, s, u, bad]: kind, stream, unit (block / member) and the damage class applied to it
   ("none" = intact). An alteration is one of
     field   one field of one record changed (class = field x change x CRC fix-up), Damage(k) lists them
     del / dup / swap       one record deleted, duplicated, exchanged with its successor
     delunit / dupunit / swapunits   a whole block / member deleted, duplicated, two of them transposed
     cut     the file ends 0..5 bytes / half way into a record (deletion of the tail)
     prefix  non-format bytes in front of the file;   append  bytes behind it
   The reader halves (XZReader, LZIPReader, LZIPReaderMT) are modelled as the parse of the altered record
   sequence; variant constants say what the reader as built does NOT verify. `Outcome` is the predicted
   result [res, out] (out = sequence of unit ids delivered), `Allowed` what property C04 tolerates.

   RejectsDamage: for every alteration of every well-formed file the outcome is an error or exactly the
   original content; the only other tolerated outcome is LZIP trailing garbage (members before bytes that no
   longer start with the magic); input whose first header is not valid is an error, never an (empty) success.

   TLC enumerates every (shape, alteration) in Init and exports each case with its prediction as JSON;
   tools/checks/c04.py concretises every case to bytes (bforge.py), runs the real readers and lets TLC
   compare the observed outcome classes with Allowed / Outcome (Trace_Corruption.tla). *)
EXTENDS Naturals, Sequences, FiniteSets, TLC, Json

CONSTANTS Format,            \* "xz" | "lzip" | "lzip_mt"
          NUnits,            \* blocks per stream / members: 0..2 (0 only for xz)
          NStreams,          \* xz: 1..2
          \* what the reader as built verifies (TRUE = verified)
          SizeProfile,       \* xz: "distinct" | "same_usize" | "same_csize": which sizes the blocks of a stream share
          ChecksIndexUnpadded,     \* xz: the unpadded size of every index record is compared with the decoded block
          ChecksIndexUncompressed, \* xz: the uncompressed size of every index record is compared with the decoded block
          ChecksPadAtEof,    \* xz: stream padding that is not a multiple of four is refused also when the input ends after it
          ChecksBlockSizes,  \* xz: compressed / uncompressed size fields of the block header are enforced
          ChecksBackward,    \* xz: footer backward size is compared with the index size
          ChecksReserved,    \* xz: reserved bits of the block flags must be zero
          FirstHeaderStrict, \* lzip: a bad first member header is an error (FALSE = treated as end of input, D6)
          LaterHeaderStrict, \* lzip: a later header with intact magic but bad version / dictionary is an error
          MtPrefixStrict     \* lzip_mt: bytes in front of the first member are an error (FALSE = < 20 bytes skipped, D6)

IsXz == Format = "xz"
R(k, s, u) == [k |-> k, s |-> s, u |-> u, bad |-> "none"]

RECURSIVE Cat(_)
Cat(ss) == IF ss = <<>> THEN <<>> ELSE Head(ss) \o Cat(Tail(ss))

XzUnit(s, u) == <<R("BH", s, u), R("DATA", s, u), R("PAD", s, u), R("CHECK", s, u)>>
XzStream(s) == <<R("SH", s, 0)>> \o Cat([u \in 1..NUnits |-> XzUnit(s, u)]) \o <<R("INDEX", s, 0), R("FOOTER", s, 0)>>
XzFile == IF NStreams = 1 THEN XzStream(1) ELSE XzStream(1) \o <<R("SPAD", 1, 0)>> \o XzStream(2)
LzUnit(u) == <<R("LHDR", 1, u), R("LBODY", 1, u), R("LTRL", 1, u)>>
LzFile == Cat([u \in 1..NUnits |-> LzUnit(u)])
File == IF IsXz THEN XzFile ELSE LzFile

\* content: unit (s, u) carries the id (s-1)*NUnits + u
Id(s, u) == (s - 1) * NUnits + u
Original == [i \in 1..(NUnits * (IF IsXz THEN NStreams ELSE 1)) |-> i]

Damage(k) ==
  CASE k = "SH" -> {"magic", "flags_unsupported_nofix", "flags_unsupported_fix", "flags_reserved_fix", "flags_othercheck_fix", "crc"}
    [] k = "BH" -> {"size_zero", "size_wrong_nofix", "size_grown_fix", "flags_reserved_fix", "filter_unknown_fix", "dictprop_invalid_fix",
                    "dict_larger_fix", "csize_wrong_fix", "usize_wrong_fix", "hdrpad_nonzero_fix", "crc"}
    [] k = "DATA" -> {"flip", "ctrl_reserved", "terminator_bad"}
    [] k = "PAD" -> {"nonzero"}
    [] k = "CHECK" -> {"flip"}
    [] k = "INDEX" -> {"count_plus_fix", "count_plus_nofix", "count_zero_fix", "unpadded_wrong_fix", "uncomp_wrong_fix", "pad_nonzero_fix", "crc"}
    [] k = "FOOTER" -> {"crc", "backward_wrong_fix", "flags_mismatch_fix", "magic"}
    [] k = "SPAD" -> {"len_not_mult4", "nonzero"}
    [] k = "LHDR" -> {"magic", "version", "dict_invalid", "dict_larger"}
    [] k = "LBODY" -> {"flip"}
    [] k = "LTRL" -> {"crc", "dsize", "msize"}
    [] OTHER -> {}

\* damage the reader as built lets pass, and which does not change the content
Benign(k, bad) ==
  \/ bad = "none"
  \/ k = "BH" /\ bad = "dict_larger_fix"
  \/ k = "BH" /\ bad \in {"csize_wrong_fix", "usize_wrong_fix"} /\ ~ChecksBlockSizes
  \/ k = "INDEX" /\ bad = "unpadded_wrong_fix" /\ ~ChecksIndexUnpadded
  \/ k = "INDEX" /\ bad = "uncomp_wrong_fix" /\ ~ChecksIndexUncompressed
  \/ k = "BH" /\ bad = "size_grown_fix" /\ ~ChecksIndexUnpadded    \* a valid, longer header: only the index disagrees
  \/ k = "SPAD" /\ bad = "cut" /\ ~ChecksPadAtEof                  \* 1-3 bytes of stream padding, then the end of the input
  \/ k = "BH" /\ bad = "flags_reserved_fix" /\ ~ChecksReserved
  \/ k = "FOOTER" /\ bad = "backward_wrong_fix" /\ ~ChecksBackward
  \/ k = "LHDR" /\ bad = "dict_larger"
Det(r) == ~Benign(r.k, r.bad)

\* abstract sizes of the unit with content id `id`: what an index record can tell apart
Usz(id) == IF SizeProfile = "same_usize" THEN 1 ELSE id
Csz(id) == IF SizeProfile = "same_csize" THEN 1 ELSE id

Units == {<<s, u>> : s \in 1..(IF IsXz THEN NStreams ELSE 1), u \in 1..NUnits}
Alterations ==
  {[t |-> "none", i |-> 0, c |-> "none"]}
  \cup {[t |-> "field", i |-> i, c |-> c] : i \in 1..Len(File), c \in UNION {Damage(k) : k \in {File[j].k : j \in 1..Len(File)}}}
  \cup {[t |-> t, i |-> i, c |-> "none"] : t \in {"del", "dup"}, i \in 1..Len(File)}
  \cup {[t |-> "swap", i |-> i, c |-> "none"] : i \in 1..(Len(File) - 1)}
  \cup {[t |-> t, i |-> Id(su[1], su[2]), c |-> "none"] : t \in {"delunit", "dupunit"}, su \in Units}
  \cup {[t |-> "swapunits", i |-> s, c |-> "none"] : s \in (IF NUnits = 2 THEN 1..(IF IsXz THEN NStreams ELSE 1) ELSE {})}
  \* the file ends c bytes into record i ("0": right in front of it): deletion of everything that follows
  \cup {[t |-> "cut", i |-> i, c |-> c] : i \in 1..Len(File), c \in {"0", "1", "2", "3", "4", "5", "mid"}}
  \cup {[t |-> "prefix", i |-> 0, c |-> c] : c \in {"zeros4", "text9", "text30", "other_magic", "half_magic"}}
  \cup {[t |-> "append", i |-> 0, c |-> c] : c \in {"garbage", "magic_garbage", "zeros4", "zeros3"}}
ValidAlt(a) == a.t = "field" => a.c \in Damage(File[a.i].k)

UnitAt(f, j) == Id(f[j].s, f[j].u)
UnitRecs(f, id) == {j \in 1..Len(f) : f[j].u # 0 /\ UnitAt(f, j) = id}
Lo(S) == CHOOSE x \in S : \A y \in S : x <= y
Hi(S) == CHOOSE x \in S : \A y \in S : x >= y
Sub(f, a, b) == IF a > b THEN <<>> ELSE SubSeq(f, a, b)

Mark(c) == [k |-> "JUNK", s |-> 0, u |-> 0, bad |-> c]
Apply(a) ==
  LET f == File IN
  CASE a.t = "none" -> f
    [] a.t = "field" -> [f EXCEPT ![a.i].bad = a.c]
    [] a.t = "del" -> Sub(f, 1, a.i - 1) \o Sub(f, a.i + 1, Len(f))
    [] a.t = "dup" -> Sub(f, 1, a.i) \o Sub(f, a.i, Len(f))
    [] a.t = "swap" -> Sub(f, 1, a.i - 1) \o <<f[a.i + 1], f[a.i]>> \o Sub(f, a.i + 2, Len(f))
    [] a.t = "delunit" -> LET S == UnitRecs(f, a.i) IN Sub(f, 1, Lo(S) - 1) \o Sub(f, Hi(S) + 1, Len(f))
    [] a.t = "dupunit" -> LET S == UnitRecs(f, a.i) IN Sub(f, 1, Hi(S)) \o Sub(f, Lo(S), Len(f))
    [] a.t = "swapunits" -> LET A == UnitRecs(f, Id(a.i, 1)) B == UnitRecs(f, Id(a.i, 2)) IN
                            Sub(f, 1, Lo(A) - 1) \o Sub(f, Lo(B), Hi(B)) \o Sub(f, Lo(A), Hi(A)) \o Sub(f, Hi(B) + 1, Len(f))
    [] a.t = "cut" -> IF a.c = "0" THEN Sub(f, 1, a.i - 1) ELSE Sub(f, 1, a.i - 1) \o <<[f[a.i] EXCEPT !.bad = "cut"]>>
    [] a.t = "prefix" -> <<Mark(a.c)>> \o f
    [] a.t = "append" -> f \o <<Mark(a.c)>>

\* ------------------------------------------------------------------ reader halves
Res(r, o) == [res |-> r, out |-> o]

\* XZReader with allow_multiple_streams = (NStreams > 1)
RECURSIVE XzParse(_, _, _, _, _, _)
XzParse(f, i, ph, out, blocks, st) ==
  IF i > Len(f) THEN (IF ph = "after" THEN Res("ok", out) ELSE Res("err", out))
  ELSE LET r == f[i] IN
  CASE ph = "sh" -> IF r.k = "SH" /\ ~Det(r) THEN XzParse(f, i + 1, "blk", out, <<>>, r.s) ELSE Res("err", out)
    [] ph = "blk" -> IF r.k = "BH" THEN (IF Det(r) THEN Res("err", out) ELSE XzParse(f, i + 1, "data", out, blocks, st))
                     ELSE IF r.k = "INDEX"
                          THEN LET want == [u \in 1..NUnits |-> Id(r.s, u)]
                                   cnt == IF r.bad \in {"count_plus_fix"} THEN NUnits + 1 ELSE IF r.bad = "count_zero_fix" THEN 0 ELSE NUnits
                               IN IF Det(r) /\ r.bad \notin {"count_plus_fix", "count_zero_fix"} THEN Res("err", out)
                                  ELSE IF cnt # Len(blocks) THEN Res("err", out)
                                  ELSE IF ChecksIndexUnpadded /\ [n \in 1..Len(blocks) |-> Csz(blocks[n])] # [n \in 1..Len(want) |-> Csz(want[n])]
                                       THEN Res("err", out)
                                  ELSE IF ChecksIndexUncompressed /\ [n \in 1..Len(blocks) |-> Usz(blocks[n])] # [n \in 1..Len(want) |-> Usz(want[n])]
                                       THEN Res("err", out)
                                  ELSE XzParse(f, i + 1, "footer", out, blocks, st)
                          ELSE Res("err", out)
    [] ph = "data" -> IF r.k = "DATA" /\ r.bad \in {"none", "flip"}
                      THEN XzParse(f, i + 1, "pad", out, Append(blocks, UnitAt(f, i)), st)   \* a flipped payload is caught by the check at the latest
                      ELSE Res("err", out)
    [] ph = "pad" -> IF r.k = "PAD" /\ ~Det(r) /\ f[i - 1].bad = "none" THEN XzParse(f, i + 1, "check", out, blocks, st) ELSE Res("err", out)
    [] ph = "check" -> IF r.k = "CHECK" /\ ~Det(r) /\ r.u = f[i - 2].u /\ r.s = f[i - 2].s
                       THEN XzParse(f, i + 1, "blk", Append(out, UnitAt(f, i)), blocks, st) ELSE Res("err", out)
    [] ph = "footer" -> IF r.k = "FOOTER" /\ ~Det(r) /\ r.s = st THEN XzParse(f, i + 1, "after", out, blocks, st) ELSE Res("err", out)
    [] ph = "after" -> IF NStreams = 1 THEN Res("ok", out)                      \* single-stream mode stops after the footer
                       ELSE IF r.k = "SPAD" THEN (IF Det(r) THEN Res("err", out) ELSE XzParse(f, i + 1, "after", out, blocks, st))
                       ELSE IF r.k = "JUNK" /\ (r.bad = "zeros4" \/ (r.bad = "zeros3" /\ ~ChecksPadAtEof)) THEN XzParse(f, i + 1, "after", out, blocks, st)
                       ELSE IF r.k = "SH" /\ ~Det(r) THEN XzParse(f, i + 1, "blk", out, <<>>, r.s)
                       ELSE Res("err", out)

\* LZIPReader: members in file order
RECURSIVE LzParse(_, _, _, _)
LzParse(f, i, ph, out) ==
  IF i > Len(f) THEN (IF ph = "hdr" THEN Res("ok", out) ELSE Res("err", out))     \* (a 0-byte input is an empty result)
  ELSE LET r == f[i] IN
  CASE ph = "hdr" ->
         IF r.k = "LHDR" /\ ~Det(r) THEN LzParse(f, i + 1, "body", out)
         ELSE IF i = 1 THEN (IF FirstHeaderStrict THEN Res("err", out) ELSE Res("ok", out))
         ELSE IF r.k = "LHDR" /\ r.bad \in {"version", "dict_invalid", "cut"} THEN (IF LaterHeaderStrict THEN Res("err", out) ELSE Res("ok", out))
         ELSE IF r.k = "JUNK" /\ r.bad = "magic_garbage" THEN (IF LaterHeaderStrict THEN Res("err", out) ELSE Res("ok", out))
         ELSE Res("ok", out)                                        \* bytes that do not start with the magic: trailing garbage
    [] ph = "body" -> IF r.k = "LBODY" /\ r.bad \in {"none", "flip"} THEN LzParse(f, i + 1, "trl", out) ELSE Res("err", out)
    [] ph = "trl" -> IF r.k = "LTRL" /\ ~Det(r) /\ f[i - 1].bad = "none" /\ r.u = f[i - 1].u /\ f[i - 2].u = r.u
                     THEN LzParse(f, i + 1, "hdr", Append(out, UnitAt(f, i))) ELSE Res("err", out)

ShortJunk == {"zeros4", "text9", "other_magic", "half_magic"}     \* prefixes shorter than a trailer (20 bytes)
\* LZIPReaderMT: scan from the back by member_size + magic, then every member through LZIPReader
RECURSIVE MtScan(_, _)
MtScan(f, j) ==          \* j = index of the last record not yet attributed; returns the sequence of member start indexes or <<0>> on failure
  IF j = 0 THEN <<>>
  ELSE IF j < 3 THEN (IF j = 1 /\ f[1].k = "JUNK" /\ f[1].bad \in ShortJunk /\ ~MtPrefixStrict THEN <<>> ELSE <<0>>)
  ELSE IF f[j].k = "LTRL" /\ f[j].bad # "msize" /\ f[j - 1].k = "LBODY" /\ f[j - 2].k = "LHDR" /\ f[j - 2].bad # "magic"
          /\ f[j - 2].u = f[j].u
       THEN LET rest == MtScan(f, j - 3) IN IF rest = <<0>> THEN <<0>> ELSE Append(rest, j - 2)
       ELSE <<0>>
MtParse(f) ==
  LET starts == MtScan(f, Len(f)) IN
  IF starts = <<0>> \/ starts = <<>> THEN Res("err", <<>>)
  ELSE \* every member goes through an LZIPReader of its own: a bad header there is that reader's "first header"
       LET skipped(j) == Det(f[j]) /\ ~FirstHeaderStrict
           ok(j) == skipped(j) \/ (~Det(f[j]) /\ f[j + 1].bad = "none" /\ ~Det(f[j + 2]) /\ f[j + 1].u = f[j].u)
           good == {n \in 1..Len(starts) : \A m \in 1..n : ok(starts[m])}
           nOk == Cardinality(good)
           kept == {n \in 1..nOk : ~skipped(starts[n])}
           outs == [n \in 1..Cardinality(kept) |-> UnitAt(f, starts[CHOOSE m \in kept : Cardinality({x \in kept : x < m}) = n - 1])]
       IN IF nOk = Len(starts) THEN Res("ok", outs) ELSE Res("err", outs)

Outcome(f) == IF IsXz THEN XzParse(f, 1, "sh", <<>>, <<>>, 0)
              ELSE IF Format = "lzip" THEN LzParse(f, 1, "hdr", <<>>) ELSE MtParse(f)

\* ------------------------------------------------------------------ what C04 tolerates
FirstHeaderValid(f) == f # <<>> /\ f[1].k = (IF IsXz THEN "SH" ELSE "LHDR") /\ f[1].bad \in {"none", "dict_larger"}
\* LZIP: the members in front of a position whose bytes no longer start with the magic (trailing garbage)
StartsWithMagic(r) == (r.k = "LHDR" /\ r.bad # "magic") \/ (r.k = "JUNK" /\ r.bad = "magic_garbage")
Intact(f, n) == \A m \in 1..n : f[m].bad \in {"none", "dict_larger"}
RECURSIVE Members(_, _)
\* unit ids of the first n records if they are whole members in order, else <<0>>
Members(f, n) == IF n = 0 THEN <<>>
                 ELSE IF n < 3 \/ f[n].k # "LTRL" \/ f[n - 1].k # "LBODY" \/ f[n - 2].k # "LHDR" \/ f[n].u # f[n - 1].u \/ f[n].u # f[n - 2].u THEN <<0>>
                 ELSE LET rest == Members(f, n - 3) IN IF rest = <<0>> THEN <<0>> ELSE Append(rest, UnitAt(f, n))
GarbageFrom(f) == {j \in 2..Len(f) : ~StartsWithMagic(f[j]) /\ Intact(f, j - 1) /\ Members(f, j - 1) # <<0>>}
TrailOuts(f) == {Members(f, j - 1) : j \in GarbageFrom(f)}
\* an edit that leaves a sequence of intact whole members is itself a well-formed LZIP file (the format has no
\* integrity information across members): its own content is what a correct reader returns
SelfContent(f) == IF ~IsXz /\ f # <<>> /\ Intact(f, Len(f)) /\ Members(f, Len(f)) # <<0>> THEN {Members(f, Len(f))} ELSE {}
\* (the statement demands rejection of NON-EMPTY input without a valid first header; a 0-byte input is an empty result for
\* LZIPReader, which the repository's own lzip_reference test relies on)
\* XZ: a file cut exactly behind a stream (or its stream padding) is a well-formed file of the streams in front of the cut
XzSelf(f) == IF IsXz /\ f # <<>> /\ Len(f) < Len(File) /\ f = SubSeq(File, 1, Len(f)) /\ f[Len(f)].k \in {"FOOTER", "SPAD"}
             THEN {[n \in 1..(NUnits * f[Len(f)].s) |-> n]} ELSE {}
AllowedOk(f) == IF f = <<>> /\ Format = "lzip" THEN {<<>>}
                ELSE IF ~FirstHeaderValid(f) THEN {}
                ELSE {Original} \cup (IF IsXz THEN XzSelf(f) ELSE TrailOuts(f) \cup SelfContent(f))
Tolerated(f, o) == o.res = "err" \/ o.out \in AllowedOk(f)

VARIABLES alt, file, outcome
vars == <<alt, file, outcome>>
Pending == [res |-> "pending", out |-> <<>>]
Init == alt \in {a \in Alterations : ValidAlt(a)} /\ file = Apply(alt) /\ outcome = Pending
Read == outcome = Pending /\ outcome' = Outcome(file) /\ UNCHANGED <<alt, file>>
Done == outcome # Pending /\ UNCHANGED vars
Next == Read \/ Done
Spec == Init /\ [][Next]_vars

RejectsDamage == outcome # Pending => Tolerated(file, outcome)
IntactAccepted == (outcome # Pending /\ alt.t = "none") => (outcome.res = "ok" /\ outcome.out = Original)

Kinds(f) == [j \in 1..Len(f) |-> f[j].k]
Export ==
  outcome # Pending =>
    PrintT(ToJson([format |-> Format, nunits |-> NUnits, nstreams |-> NStreams, t |-> alt.t, i |-> alt.i, c |-> alt.c,
                   k |-> (IF alt.t \in {"field", "del", "dup", "swap", "cut"} THEN File[alt.i].k ELSE "-"),
                   s |-> (IF alt.t \in {"field", "del", "dup", "swap", "cut"} THEN File[alt.i].s ELSE 0),
                   u |-> (IF alt.t \in {"field", "del", "dup", "swap", "cut"} THEN File[alt.i].u ELSE 0),
                   res |-> outcome.res, out |-> outcome.out, tolerated |-> Tolerated(file, outcome),
                   allowed_ok |-> AllowedOk(file), first_valid |-> FirstHeaderValid(file)]))
=============================================================================
