---------------------------- MODULE CallPartition ----------------------------
(* Caller-facing contract of every writer and reader of the crate with respect to how the caller
   splits its calls (property C07), and the enumeration of call scripts that are replayed on the
   real objects.

   Writer side. The input is N abstract units 1..N handed over in order by write() calls of
   arbitrary sizes, with empty writes and flush() calls interleaved, then finish(). The writer is
   abstracted as (buffered, emitted): how many units are accepted but not yet encoded into the sink,
   and how many have their encoding in the sink (the sink holds units 1..emitted, the writer holds
   emitted+1..emitted+buffered, in order; the byte-level truth of that enters traces as the
   observed field dec_ok). It may forward any part of what it buffers at any time
   (window filling, chunk / block / member cutting, look-ahead are all hidden in that
   nondeterminism); flush() forwards everything when FlushDrains (LZMA2 / XZ / MT writers) and is
   a no-op otherwise (LZMAWriter, LZIPWriter). Contract: emitted + buffered is always the
   number of units passed so far (nothing lost, nothing duplicated), and after finish() the sink
   holds all N units - whatever the script (PartitionIndependent).

   Reader side. A stream of N units is read with destination buffers of sizes taken from
   ReadSizes. A read of size 0 returns 0 and changes nothing (ZeroReadNoop); a read of size
   n > 0 returns between 1 and n units while any are left (exactly min(n, left) when ~ShortReads,
   which is what the script enumeration uses), and 0 from then on (EofSticky). The units delivered
   are 1, 2, .. in order whatever the size sequence (SizeIndependent).

   `script` is a history variable: a behaviour that reaches finish / end of stream is one call
   script; TLC prints each complete script once (ToJson), the check replays them on every real
   writer / reader with the abstract sizes rescaled. *)
EXTENDS Naturals, Sequences, TLC, Json

CONSTANTS Side,          \* "writer" | "reader"
          N,
          MaxCalls,      \* bound on the script length
          MaxEmpty,      \* empty writes / zero-length reads per script
          MaxFlush,
          WriteSizes,    \* slice sizes in units (0 is expressed by the empty-write action)
          ReadSizes,     \* non-zero destination sizes in units; 99 = larger than the stream
          FlushDrains, ShortReads,
          Export         \* TRUE: print complete scripts

VARIABLES given, buffered, emitted, fin,       \* writer
          delivered, eof, lastRet,             \* reader
          script, nEmpty, nFlush,
          fwd                                  \* a silent Forward step happened (only used to export each script once)
vars == <<given, buffered, emitted, fin, delivered, eof, lastRet, script, nEmpty, nFlush, fwd>>

Init == /\ given = 0 /\ buffered = 0 /\ emitted = 0 /\ fin = FALSE
        /\ delivered = 0 /\ eof = FALSE /\ lastRet = 0
        /\ script = <<>> /\ nEmpty = 0 /\ nFlush = 0 /\ fwd = FALSE

Last == IF script = <<>> THEN <<"none">> ELSE script[Len(script)]
More == Len(script) < MaxCalls
RUnch == UNCHANGED <<delivered, eof, lastRet>>
WUnch == UNCHANGED <<given, buffered, emitted, fin>>

\* ------------------------------------------------------------------ writer
Write(k) ==
  /\ Side = "writer" /\ ~fin /\ More /\ k >= 1 /\ k <= N - given
  /\ given' = given + k
  /\ buffered' = buffered + k
  /\ script' = Append(script, <<"w", k>>)
  /\ UNCHANGED <<emitted, fin, nEmpty, nFlush, fwd>> /\ RUnch

EmptyWrite ==
  /\ Side = "writer" /\ ~fin /\ More /\ nEmpty < MaxEmpty /\ Last[1] # "e"
  /\ script' = Append(script, <<"e", 0>>) /\ nEmpty' = nEmpty + 1
  /\ UNCHANGED <<given, buffered, emitted, fin, nFlush, fwd>> /\ RUnch

Forward(j) ==   \* the writer encodes the oldest j buffered units into the sink (no caller-visible event)
  /\ Side = "writer" /\ ~fin /\ j >= 1 /\ j <= buffered
  /\ emitted' = emitted + j
  /\ buffered' = buffered - j
  /\ fwd' = TRUE
  /\ UNCHANGED <<given, fin, script, nEmpty, nFlush>> /\ RUnch

Flush ==
  /\ Side = "writer" /\ ~fin /\ More /\ nFlush < MaxFlush /\ Last[1] # "f"
  /\ IF FlushDrains THEN emitted' = emitted + buffered /\ buffered' = 0
                    ELSE UNCHANGED <<emitted, buffered>>
  /\ script' = Append(script, <<"f", 0>>) /\ nFlush' = nFlush + 1
  /\ UNCHANGED <<given, fin, nEmpty, fwd>> /\ RUnch

Finish ==
  /\ Side = "writer" /\ ~fin /\ given = N
  /\ emitted' = emitted + buffered /\ buffered' = 0 /\ fin' = TRUE
  /\ (Export /\ ~fwd) => PrintT(ToJson(script))             \* each script once: the run without Forward steps
  /\ UNCHANGED <<given, script, nEmpty, nFlush, fwd>> /\ RUnch

\* ------------------------------------------------------------------ reader
Left == N - delivered
Read(n, k) ==     \* destination of n units (n >= 1), k units returned
  /\ Side = "reader" /\ ~eof /\ More
  /\ IF Left = 0 THEN k = 0
     ELSE IF ShortReads THEN k >= 1 /\ k <= n /\ k <= Left
          ELSE k = (IF n < Left THEN n ELSE Left)
  /\ delivered' = delivered + k /\ eof' = (k = 0) /\ lastRet' = k
  /\ script' = Append(script, <<"r", n>>)
  /\ (Export /\ k = 0) => PrintT(ToJson(script'))
  /\ UNCHANGED <<nEmpty, nFlush, fwd>> /\ WUnch

ZeroRead ==       \* destination of length 0: returns 0, nothing else happens
  /\ Side = "reader" /\ ~eof /\ More /\ nEmpty < MaxEmpty /\ Last # <<"r", 0>>
  /\ lastRet' = 0
  /\ script' = Append(script, <<"r", 0>>) /\ nEmpty' = nEmpty + 1
  /\ UNCHANGED <<delivered, eof, nFlush, fwd>> /\ WUnch

ReadAfterEof(n) ==   \* end of stream is sticky
  /\ Side = "reader" /\ eof /\ lastRet' = 0
  /\ UNCHANGED <<delivered, eof, script, nEmpty, nFlush, fwd>> /\ WUnch

Next ==
  \/ \E k \in WriteSizes : Write(k)
  \/ EmptyWrite \/ Flush \/ Finish
  \/ \E j \in 1..N : Forward(j)
  \/ \E n \in ReadSizes : \E k \in 0..N : Read(n, k)
  \/ ZeroRead
  \/ \E n \in ReadSizes \cup {0} : ReadAfterEof(n)
Spec == Init /\ [][Next]_vars

\* ------------------------------------------------------------------ properties
Conservation == emitted + buffered = given /\ given <= N
PartitionIndependent == fin => emitted = N
FlushDrained == (FlushDrains /\ Last[1] = "f" /\ ~fin) => buffered = 0
SizeIndependent == delivered <= N /\ (eof => delivered = N)
ZeroReadNoop == [][(Side = "reader" /\ script' # script /\ script'[Len(script')] = <<"r", 0>>)
                     => (delivered' = delivered /\ eof' = eof /\ lastRet' = 0)]_vars
EofSticky == [][eof => (eof' /\ delivered' = delivered /\ lastRet' = 0)]_vars
\* witnesses (must be violated): a script with an empty write and a flush between two writes; a zero read mid-stream
WitnessInterleaved == ~(fin /\ nEmpty >= 1 /\ nFlush >= 1 /\ Len(script) >= 4)
WitnessZeroMid == ~(eof /\ nEmpty >= 1 /\ \E i \in 2..(Len(script) - 1) : script[i] = <<"r", 0>>)
=============================================================================
