---------------------------- MODULE LzRing ----------------------------
(* Scalar bookkeeping of LZDecoder (src/lz/lz_decoder.rs) with the ring size as a parameter: shared by the design
   specification LzDecoder.tla (which adds the ring contents and checks that both agree) and by the trace
   specification Trace_LzDecoder.tla (which validates the scalars logged by hook H3 for rings of any size). *)
EXTENDS Integers

Min(a, b) == IF a < b THEN a ELSE b
Max(a, b) == IF a > b THEN a ELSE b

\* set_limit(out_max)
LimitOf(Bp, p, outMax) == Min(outMax + p, Bp)

\* repeat(dist, len) with dist < full: every regime ends at pos + left; `full` is not updated on the early return
\* of the wrapped regime (it equals the ring size there)
RepeatScalars(Bp, p, lim, fl, dist, len) ==
  LET left0 == Min(lim - p, len)
      wraps == p < dist + 1
      cs1   == IF wraps THEN Min(Bp - (Bp + p - dist - 1), left0) ELSE 0
  IN [pos |-> p + left0, pLen |-> len - left0, pDist |-> dist,
      full |-> IF wraps /\ left0 - cs1 = 0 THEN fl ELSE Max(fl, p + left0)]

\* flush(): returns pos - start; pos wraps to 0 when it reached the ring size; start = pos
FlushScalars(Bp, st, p) == [copied |-> p - st, pos |-> IF p = Bp THEN 0 ELSE p]

\* copy_uncompressed(len): copies min(buf_size - pos, len)
UncCopied(Bp, p, len) == Min(Bp - p, len)
=============================================================================
