------------------------------ MODULE MtWriter ------------------------------
(* LZMA2WriterMT (src/enc/lzma2_writer_mt.rs) and LZIPWriterMT (src/lzip/writer_mt.rs) with the
   WorkStealingQueue, one action per operation of the deterministic runtime, same conventions and
   runtime objects as MtReader (mutex 0 = queue, mutex 1 = error store, condvar 0, atomic 0 = closed,
   1 = shutdown, 2 = active_workers, channel 0 = results). The two writers differ only in what a worker
   does with a unit and in the epilogue bytes, neither of which is a runtime operation.

   The caller is a script `Calls` over
     "F"  one iteration of write() that fills the current unit (-> send_work_unit, then non-blocking drain)
     "P"  one iteration of write() that leaves the unit partly filled (non-blocking drain only)
     "f"  flush()   "X" finish()   "D" drop
   (a write() call is a run of F / P iterations; call boundaries inside it are not runtime operations).
   After the script, or after the first call that returns an error, the writer is dropped. *)
EXTENDS Naturals, Sequences, FiniteSets, TLC

CONSTANTS MaxWorkers, Calls, PanicUnits, CloseLock, WakeOnError, PanicGuard

Workers == 1..MaxWorkers
NoneV == 99
CO == 100

VARIABLES Q, CH, SH, C, W
vars == <<Q, CH, SH, C, W>>

Q0 == [items |-> <<>>, owner |-> 0, waiting |-> {}, notified |-> {}, closed |-> FALSE]
CH0 == [msgs |-> <<>>, senders |-> 1, rxAlive |-> TRUE]
SH0 == [esOwner |-> 0, err |-> "none", shutdown |-> FALSE, active |-> 0]
C0 == [pc |-> "new", state |-> "Writing", nextDisp |-> 0, nextWrite |-> 0, lastSeq |-> NoneV, ooo |-> {},
       cur |-> 0, ci |-> 0, spawned |-> 0, tmp |-> 0, written |-> <<>>, result |-> "none", last |-> "none",
       sctx |-> "none", gctx |-> "none", fin |-> FALSE, flushed |-> TRUE]
W0 == [w \in Workers |-> [pc |-> "unborn", item |-> NoneV]]
Init == Q = Q0 /\ CH = CH0 /\ SH = SH0 /\ C = C0 /\ W = W0

IsBad(u) == FALSE
IsPanic(u) == u \in PanicUnits

\* ------------------------------------------------------------------ caller script
CallKind == IF C.ci < Len(Calls) /\ C.result # "err" THEN Calls[C.ci + 1] ELSE "D"
Goto(l) == [C EXCEPT !.pc = l]
\* a call (or write iteration) returns
RetOk(c, k) == [c EXCEPT !.pc = "idle", !.ci = @ + 1, !.result = "ok", !.last = k,
                         !.flushed = (k = "f") => (Len(c.written) = c.nextDisp)]
RetErr(c) == [c EXCEPT !.pc = "idle", !.ci = @ + 1, !.result = "err", !.last = "err"]

SpawnOne ==
  /\ CH' = [CH EXCEPT !.senders = @ + 1]
  /\ W' = [W EXCEPT ![C.spawned + 1].pc = "top"]

CNew ==      \* Spawn: the constructors start the first worker
  /\ C.pc = "new" /\ SpawnOne /\ C' = [C EXCEPT !.pc = "idle", !.spawned = 1] /\ UNCHANGED <<Q, SH>>

CCall ==     \* silent: enter the next call of the script up to its first runtime operation
  /\ C.pc = "idle" /\ CallKind \in {"F", "P", "f", "X"}
  /\ C' = CASE CallKind = "F" -> [C EXCEPT !.cur = 2, !.pc = "S0", !.sctx = "it"]
             [] CallKind = "P" -> [C EXCEPT !.cur = 1, !.pc = "G0", !.gctx = "dr"]
             [] CallKind = "f" -> IF C.cur > 0 THEN [C EXCEPT !.pc = "S0", !.sctx = "f"] ELSE Goto("FLchk")
             [] CallKind = "X" -> IF C.cur > 0 THEN [C EXCEPT !.pc = "S0", !.sctx = "X"] ELSE Goto("Xafter")
  /\ UNCHANGED <<Q, CH, SH, W>>

\* ------------------------------------------------------------------ send_work_unit
CS0 ==       \* back-pressure test: work_queue.len(): Lock(Q)
  /\ C.pc = "S0" /\ Q.owner = 0 /\ Q' = [Q EXCEPT !.owner = CO]
  /\ C' = [C EXCEPT !.tmp = Len(Q.items), !.pc = "S0u"] /\ UNCHANGED <<CH, SH, W>>
CS0u ==      \* Unlock(Q)
  /\ C.pc = "S0u" /\ Q' = [Q EXCEPT !.owner = 0]
  /\ C' = IF C.tmp >= 4 THEN [C EXCEPT !.pc = "G0", !.gctx = "bp"] ELSE Goto("S_load")
  /\ UNCHANGED <<CH, SH, W>>
CSLoad ==    \* push(): ALoad(closed)
  /\ C.pc = "S_load" /\ C' = Goto("S_lock") /\ UNCHANGED <<Q, CH, SH, W>>
CSLock ==    \* Lock(Q) + push_back
  /\ C.pc = "S_lock" /\ Q.owner = 0
  /\ Q' = [Q EXCEPT !.owner = CO, !.items = Append(@, C.nextDisp)] /\ C' = Goto("S_unlock")
  /\ UNCHANGED <<CH, SH, W>>
CSUnlock ==
  /\ C.pc = "S_unlock" /\ Q' = [Q EXCEPT !.owner = 0] /\ C' = Goto("S_notify") /\ UNCHANGED <<CH, SH, W>>
CSNotifyW(w) ==   \* NotifyOne(CV) waking waiter w (0 = nobody waits)
  /\ C.pc = "S_notify"
  /\ IF Q.waiting = {} THEN w = 0 /\ UNCHANGED Q
     ELSE w \in Q.waiting /\ Q' = [Q EXCEPT !.waiting = @ \ {w}, !.notified = @ \cup {w}]
  /\ C' = Goto("S_act") /\ UNCHANGED <<CH, SH, W>>
CSNotify == \E w \in Workers \cup {0} : CSNotifyW(w)
CSAct ==     \* ALoad(active)
  /\ C.pc = "S_act" /\ C' = [C EXCEPT !.tmp = SH.active, !.pc = "S_len"] /\ UNCHANGED <<Q, CH, SH, W>>
CSLen ==     \* Lock(Q) for len(); evaluates the spawn rule
  /\ C.pc = "S_len" /\ Q.owner = 0 /\ Q' = [Q EXCEPT !.owner = CO]
  /\ C' = [C EXCEPT !.tmp = (IF Len(Q.items) > 0 /\ C.tmp = C.spawned /\ C.spawned < MaxWorkers THEN 1 ELSE 0),
                    !.pc = "S_lenu"]
  /\ UNCHANGED <<CH, SH, W>>
AfterSend(c) ==
  LET d == [c EXCEPT !.nextDisp = @ + 1, !.cur = 0] IN
  CASE c.sctx = "it" -> [d EXCEPT !.pc = "G0", !.gctx = "dr"]
    [] c.sctx = "f"  -> [d EXCEPT !.pc = "FLchk"]
    [] c.sctx = "X"  -> [d EXCEPT !.pc = "Xafter"]
CSLenU ==    \* Unlock(Q); maybe Spawn next
  /\ C.pc = "S_lenu" /\ Q' = [Q EXCEPT !.owner = 0]
  /\ C' = IF C.tmp = 1 THEN Goto("S_spawn") ELSE AfterSend(C)
  /\ UNCHANGED <<CH, SH, W>>
CSSpawn ==
  /\ C.pc = "S_spawn" /\ SpawnOne /\ C' = AfterSend([C EXCEPT !.spawned = @ + 1]) /\ UNCHANGED <<Q, SH>>

\* ------------------------------------------------------------------ get_next_compressed_chunk(blocking)
\* contexts: "bp" back-pressure loop of send_work_unit (blocking), "dr" drain after a write iteration
\* (non-blocking), "fl" flush (blocking), "fn" finish (blocking)
Blocking == C.gctx # "dr"
GotSome(c, seq) ==     \* the chunk is written to the sink (no runtime operation)
  LET d == [c EXCEPT !.written = Append(@, seq)] IN
  CASE c.gctx = "bp" -> [d EXCEPT !.pc = "S0"]
    [] c.gctx = "dr" -> [d EXCEPT !.pc = "G0"]
    [] c.gctx = "fl" -> [d EXCEPT !.pc = "FLchk"]
    [] c.gctx = "fn" -> [d EXCEPT !.pc = "G0"]
GotNone(c) ==
  CASE c.gctx = "bp" -> IF c.state # "Writing" THEN RetErr(c) ELSE [c EXCEPT !.pc = "S0"]
    [] c.gctx = "dr" -> RetOk(c, "w")
    [] c.gctx = "fl" -> RetErr(c)
    [] c.gctx = "fn" -> [c EXCEPT !.pc = "XZ1"]    \* terminator byte, then shutdown
GotResult(c, seq) ==
  IF seq = c.nextWrite THEN GotSome([c EXCEPT !.nextWrite = @ + 1], seq)
  ELSE [c EXCEPT !.ooo = @ \cup {seq}, !.pc = "G0"]

CG0Hit ==    \* silent: reorder-map hit
  /\ C.pc = "G0" /\ C.nextWrite \in C.ooo
  /\ C' = GotSome([C EXCEPT !.ooo = @ \ {C.nextWrite}, !.nextWrite = @ + 1], C.nextWrite)
  /\ UNCHANGED <<Q, CH, SH, W>>
CG0Lock ==   \* Lock(ES)
  /\ C.pc = "G0" /\ C.nextWrite \notin C.ooo /\ SH.esOwner = 0
  /\ SH' = [SH EXCEPT !.esOwner = CO] /\ C' = Goto("G1u") /\ UNCHANGED <<Q, CH, W>>
CG1u ==      \* take(); Unlock(ES); match self.state up to the next runtime operation
  /\ C.pc = "G1u"
  /\ IF SH.err # "none"
       THEN /\ SH' = [SH EXCEPT !.esOwner = 0, !.err = "none"] /\ C' = RetErr([C EXCEPT !.state = "Error"])
       ELSE /\ SH' = [SH EXCEPT !.esOwner = 0]
            /\ C' = CASE C.state = "Writing"   -> Goto("GR")
                      [] C.state = "Finishing" -> IF C.lastSeq # NoneV /\ C.nextWrite > C.lastSeq /\ C.ooo = {}
                                                    THEN [C EXCEPT !.state = "Finished", !.pc = "G0"]
                                                    ELSE Goto("GRF")
                      [] C.state = "Finished"  -> GotNone(C)
                      [] C.state = "Error"     -> Goto("GE1")
  /\ UNCHANGED <<Q, CH, W>>
CGRecv ==    \* Writing, blocking: Recv(CH)
  /\ C.pc = "GR" /\ Blocking /\ (CH.msgs # <<>> \/ CH.senders = 0)
  /\ IF CH.msgs # <<>> THEN CH' = [CH EXCEPT !.msgs = Tail(@)] /\ C' = GotResult(C, Head(CH.msgs))
                        ELSE UNCHANGED CH /\ C' = [C EXCEPT !.state = "Finishing", !.pc = "G0"]
  /\ UNCHANGED <<Q, SH, W>>
CGTry ==     \* Writing, non-blocking: TryRecv(CH)
  /\ C.pc = "GR" /\ ~Blocking
  /\ IF CH.msgs # <<>> THEN CH' = [CH EXCEPT !.msgs = Tail(@)] /\ C' = GotResult(C, Head(CH.msgs))
     ELSE /\ UNCHANGED CH
          /\ C' = IF CH.senders = 0 THEN [C EXCEPT !.state = "Finishing", !.pc = "G0"] ELSE GotNone(C)
  /\ UNCHANGED <<Q, SH, W>>
CGRecvF ==   \* Finishing: Recv(CH)
  /\ C.pc = "GRF" /\ (CH.msgs # <<>> \/ CH.senders = 0)
  /\ IF CH.msgs # <<>> THEN CH' = [CH EXCEPT !.msgs = Tail(@)] /\ C' = GotResult(C, Head(CH.msgs))
                        ELSE UNCHANGED CH /\ C' = Goto("G0")   \* (lost-chunk branch: unreachable, the
                                                                \*  coordinator's own Sender keeps the channel open)
  /\ UNCHANGED <<Q, SH, W>>
CGE1 == /\ C.pc = "GE1" /\ SH.esOwner = 0 /\ SH' = [SH EXCEPT !.esOwner = CO] /\ C' = Goto("GE2")
        /\ UNCHANGED <<Q, CH, W>>
CGE2 == /\ C.pc = "GE2" /\ SH' = [SH EXCEPT !.esOwner = 0, !.err = "none"] /\ C' = RetErr(C)
        /\ UNCHANGED <<Q, CH, W>>

\* ------------------------------------------------------------------ flush / finish / drop
CFlChk ==    \* silent: while next_sequence_to_write < sequence_to_wait
  /\ C.pc = "FLchk"
  /\ C' = IF C.nextWrite < C.nextDisp THEN [C EXCEPT !.pc = "G0", !.gctx = "fl"] ELSE RetOk(C, "f")
  /\ UNCHANGED <<Q, CH, SH, W>>
CXAfter ==   \* silent: finish() after the last dispatch
  /\ C.pc = "Xafter"
  /\ C' = IF C.nextDisp = 0 THEN Goto("XZ1")
          ELSE [C EXCEPT !.lastSeq = C.nextDisp - 1, !.state = "Finishing", !.pc = "G0", !.gctx = "fn"]
  /\ UNCHANGED <<Q, CH, SH, W>>
\* epilogue of finish(): terminator written; AStore(shutdown); close(); then `self` is dropped
CXZ1 ==  /\ C.pc = "XZ1" /\ SH' = [SH EXCEPT !.shutdown = TRUE]
         /\ C' = [C EXCEPT !.pc = IF CloseLock THEN "XZ2l" ELSE "XZ2", !.fin = TRUE] /\ UNCHANGED <<Q, CH, W>>
CXZ2l == /\ C.pc = "XZ2l" /\ Q.owner = 0 /\ Q' = [Q EXCEPT !.owner = CO] /\ C' = Goto("XZ2") /\ UNCHANGED <<CH, SH, W>>
CXZ2 ==  /\ C.pc = "XZ2" /\ Q' = [Q EXCEPT !.closed = TRUE] /\ C' = Goto(IF CloseLock THEN "XZ2u" ELSE "XZ3")
         /\ UNCHANGED <<CH, SH, W>>
CXZ2u == /\ C.pc = "XZ2u" /\ Q' = [Q EXCEPT !.owner = 0] /\ C' = Goto("XZ3") /\ UNCHANGED <<CH, SH, W>>
CXZ3 ==  /\ C.pc = "XZ3" /\ Q' = [Q EXCEPT !.notified = @ \cup Q.waiting, !.waiting = {}]
         /\ C' = [RetOk(C, "X") EXCEPT !.pc = "X1"] /\ UNCHANGED <<CH, SH, W>>
\* Drop (explicit, after an error, at the end of the script, or of the `self` consumed by finish())
CDrop0 == /\ C.pc = "idle" /\ CallKind = "D" /\ C' = Goto("X1") /\ UNCHANGED <<Q, CH, SH, W>>   \* silent
CDrop1 == /\ C.pc = "X1" /\ SH' = [SH EXCEPT !.shutdown = TRUE]
          /\ C' = Goto(IF CloseLock THEN "X2l" ELSE "X2") /\ UNCHANGED <<Q, CH, W>>
CDrop2l == /\ C.pc = "X2l" /\ Q.owner = 0 /\ Q' = [Q EXCEPT !.owner = CO] /\ C' = Goto("X2") /\ UNCHANGED <<CH, SH, W>>
CDrop2 == /\ C.pc = "X2" /\ Q' = [Q EXCEPT !.closed = TRUE] /\ C' = Goto(IF CloseLock THEN "X2u" ELSE "X3")
          /\ UNCHANGED <<CH, SH, W>>
CDrop2u == /\ C.pc = "X2u" /\ Q' = [Q EXCEPT !.owner = 0] /\ C' = Goto("X3") /\ UNCHANGED <<CH, SH, W>>
CDrop3 == /\ C.pc = "X3" /\ Q' = [Q EXCEPT !.notified = @ \cup Q.waiting, !.waiting = {}] /\ C' = Goto("X4")
          /\ UNCHANGED <<CH, SH, W>>
CDrop4 == /\ C.pc = "X4" /\ CH' = [CH EXCEPT !.rxAlive = FALSE] /\ C' = Goto("X5") /\ UNCHANGED <<Q, SH, W>>
CDrop5 == /\ C.pc = "X5" /\ CH' = [CH EXCEPT !.senders = @ - 1] /\ C' = Goto("exiting") /\ UNCHANGED <<Q, SH, W>>
CExit ==  /\ C.pc = "exiting" /\ C' = Goto("gone") /\ UNCHANGED <<Q, CH, SH, W>>

CoordStep ==
  \/ CNew \/ CCall \/ CS0 \/ CS0u \/ CSLoad \/ CSLock \/ CSUnlock \/ CSNotify \/ CSAct \/ CSLen \/ CSLenU \/ CSSpawn
  \/ CG0Hit \/ CG0Lock \/ CG1u \/ CGRecv \/ CGTry \/ CGRecvF \/ CGE1 \/ CGE2 \/ CFlChk \/ CXAfter
  \/ CXZ1 \/ CXZ2l \/ CXZ2 \/ CXZ2u \/ CXZ3
  \/ CDrop0 \/ CDrop1 \/ CDrop2l \/ CDrop2 \/ CDrop2u \/ CDrop3 \/ CDrop4 \/ CDrop5 \/ CExit

\* ------------------------------------------------------------------ workers
WGo(w, l) == [W EXCEPT ![w].pc = l]
PopOrCheck(w) ==   \* with the queue lock held: pop_front or go on to the closed check
  IF Q.items # <<>>
    THEN /\ Q' = [Q EXCEPT !.owner = w, !.items = Tail(@), !.notified = @ \ {w}]
         /\ W' = [W EXCEPT ![w].pc = "gotUnlock", ![w].item = Head(Q.items)]
    ELSE /\ Q' = [Q EXCEPT !.owner = w, !.notified = @ \ {w}] /\ W' = WGo(w, "chk")

WTop(w) ==        \* ALoad(shutdown)
  /\ W[w].pc = "top" /\ W' = WGo(w, IF SH.shutdown THEN "dropTx" ELSE "lock") /\ UNCHANGED <<Q, CH, SH, C>>
WLock(w) ==       \* steal(): Lock(Q)
  /\ W[w].pc = "lock" /\ Q.owner = 0 /\ PopOrCheck(w) /\ UNCHANGED <<CH, SH, C>>
WGotUnlock(w) ==  \* Unlock(Q) with an item
  /\ W[w].pc = "gotUnlock" /\ Q' = [Q EXCEPT !.owner = 0] /\ W' = WGo(w, "inc") /\ UNCHANGED <<CH, SH, C>>
WChk(w) ==        \* ALoad(closed) while holding Q
  /\ W[w].pc = "chk" /\ W' = WGo(w, IF Q.closed THEN "noneUnlock" ELSE "wait") /\ UNCHANGED <<Q, CH, SH, C>>
WNoneUnlock(w) == \* Unlock(Q), steal() returns None
  /\ W[w].pc = "noneUnlock" /\ Q' = [Q EXCEPT !.owner = 0] /\ W' = WGo(w, "dropTx") /\ UNCHANGED <<CH, SH, C>>
WWait(w) ==       \* CvWait: atomically release Q and sleep
  /\ W[w].pc = "wait" /\ Q' = [Q EXCEPT !.owner = 0, !.waiting = @ \cup {w}, !.notified = @ \ {w}]
  /\ W' = WGo(w, "sleep") /\ UNCHANGED <<CH, SH, C>>
WWake(w) ==       \* CvWake: notified and Q free: re-acquire, loop: pop attempt again
  /\ W[w].pc = "sleep" /\ w \in Q.notified /\ Q.owner = 0 /\ PopOrCheck(w) /\ UNCHANGED <<CH, SH, C>>
WInc(w) ==        \* AAdd(active, +1); the decode itself touches no runtime object
  /\ W[w].pc = "inc" /\ SH' = [SH EXCEPT !.active = @ + 1]
  \* a panic unwinds the worker: with the panic guard its Drop runs the error path (without the decrement of
  \* `active`); without it the thread just drops its Sender and is gone
  /\ W' = WGo(w, CASE IsPanic(W[w].item) -> (IF PanicGuard THEN "esLock" ELSE "dropTx")
                    [] IsBad(W[w].item) -> "decErr" [] OTHER -> "send")
  /\ UNCHANGED <<Q, CH, C>>
WSend(w) ==       \* Send(CH)
  /\ W[w].pc = "send"
  /\ IF CH.rxAlive THEN CH' = [CH EXCEPT !.msgs = Append(@, W[w].item)] /\ W' = WGo(w, "decOk")
                   ELSE UNCHANGED CH /\ W' = WGo(w, "decExit")
  /\ UNCHANGED <<Q, SH, C>>
WDec(w) ==        \* AAdd(active, -1)
  /\ W[w].pc \in {"decOk", "decExit", "decErr"} /\ SH' = [SH EXCEPT !.active = @ - 1]
  /\ W' = WGo(w, CASE W[w].pc = "decOk" -> "top" [] W[w].pc = "decExit" -> "dropTx" [] OTHER -> "esLock")
  /\ UNCHANGED <<Q, CH, C>>
WEsLock(w) ==     \* set_error: Lock(ES), store if empty
  /\ W[w].pc = "esLock" /\ SH.esOwner = 0
  /\ SH' = [SH EXCEPT !.esOwner = w, !.err = IF @ = "none" THEN "worker" ELSE @]
  /\ W' = WGo(w, "shut") /\ UNCHANGED <<Q, CH, C>>
WShut(w) ==       \* AStore(shutdown), still holding ES
  /\ W[w].pc = "shut" /\ SH' = [SH EXCEPT !.shutdown = TRUE] /\ W' = WGo(w, "esUnlock") /\ UNCHANGED <<Q, CH, C>>
WEsUnlock(w) ==   \* Unlock(ES) at the end of set_error
  /\ W[w].pc = "esUnlock" /\ SH' = [SH EXCEPT !.esOwner = 0]
  /\ W' = WGo(w, IF WakeOnError THEN "wakeSend" ELSE "dropTx") /\ UNCHANGED <<Q, CH, C>>
WWakeSend(w) ==   \* repaired: Send(CH) of a marker (sequence number u64::MAX, never awaited) so that a
                  \* coordinator blocked in recv() parks it and re-checks the error store
  /\ W[w].pc = "wakeSend"
  /\ IF CH.rxAlive THEN CH' = [CH EXCEPT !.msgs = Append(@, NoneV)] ELSE UNCHANGED CH
  /\ W' = WGo(w, "dropTx") /\ UNCHANGED <<Q, SH, C>>
WDropTx(w) ==     \* DropSender(CH): the thread's closure is dropped
  /\ W[w].pc = "dropTx" /\ CH' = [CH EXCEPT !.senders = @ - 1] /\ W' = WGo(w, "exiting") /\ UNCHANGED <<Q, SH, C>>
WExit(w) ==       \* Exit
  /\ W[w].pc = "exiting" /\ W' = WGo(w, "exit") /\ UNCHANGED <<Q, CH, SH, C>>

WorkerStep(w) == WTop(w) \/ WLock(w) \/ WGotUnlock(w) \/ WChk(w) \/ WNoneUnlock(w) \/ WWait(w) \/ WWake(w)
                 \/ WInc(w) \/ WSend(w) \/ WDec(w) \/ WEsLock(w) \/ WEsUnlock(w) \/ WShut(w) \/ WWakeSend(w)
                 \/ WDropTx(w) \/ WExit(w)

WorkersDone == \A w \in Workers : W[w].pc \in {"unborn", "exit"}
Done == C.pc = "gone" /\ WorkersDone /\ UNCHANGED vars
Next == CoordStep \/ (\E w \in Workers : WorkerStep(w)) \/ Done
\* Safety must not depend on the absence of spurious wake-ups (liveness is checked without them; the runtime
\* never produces one, so this action is model-only)
WSpurious(w) ==
  /\ W[w].pc = "sleep" /\ w \notin Q.notified /\ Q.owner = 0
  /\ IF Q.items # <<>>
       THEN /\ Q' = [Q EXCEPT !.owner = w, !.items = Tail(@), !.waiting = @ \ {w}]
            /\ W' = [W EXCEPT ![w].pc = "gotUnlock", ![w].item = Head(Q.items)]
       ELSE /\ Q' = [Q EXCEPT !.owner = w, !.waiting = @ \ {w}] /\ W' = WGo(w, "chk")
  /\ UNCHANGED <<CH, SH, C>>
SpecSpur == Init /\ [][Next \/ \E w \in Workers : WSpurious(w)]_vars
Spec == Init /\ [][Next]_vars /\ WF_vars(CoordStep) /\ \A w \in Workers : WF_vars(WorkerStep(w))
SpecSafe == Init /\ [][Next]_vars

\* ------------------------------------------------------------------ properties
TypeOK == /\ Q.owner \in Workers \cup {0, CO} /\ SH.esOwner \in Workers \cup {0, CO}
          /\ SH.active \in 0..MaxWorkers /\ C.spawned \in 0..MaxWorkers /\ Len(Q.items) <= 5
\* C08/C13: compressed units reach the sink in sequence order, each exactly once, whatever the schedule
InOrder == \A i \in 1..Len(C.written) : C.written[i] = i - 1
\* C09: finish() reports success only if every dispatched unit was written and no worker failed
NoFalseSuccess == C.fin => /\ Len(C.written) = C.nextDisp /\ C.cur = 0
                           /\ \A u \in 0..(C.nextDisp - 1) : ~IsPanic(u)
\* C07: when flush() returns Ok every unit dispatched so far has been written
FlushDrains == C.flushed
WorkerBound == C.spawned <= MaxWorkers /\ SH.active <= C.spawned
               /\ Cardinality({w \in Workers : W[w].pc \notin {"unborn", "exit"}}) <= MaxWorkers
PushSeesOpen == C.pc = "S_lock" => ~Q.closed
NoDeadlock == ENABLED Next
Terminates == <>(C.pc = "gone" /\ WorkersDone)
CallsReturn == (C.pc \in {"S0", "G0", "FLchk", "Xafter"}) ~> (C.pc \in {"idle", "X1"})
WorkersReleased == (C.pc = "gone") ~> WorkersDone
=============================================================================
