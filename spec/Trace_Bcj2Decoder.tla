--------------------------- MODULE Trace_Bcj2Decoder ---------------------------
(* Trace validation of the real BCJ2Reader (src/filter/bcj2.rs + bcj2/decode.rs) against Bcj2Decoder.
   vh_bcj2 records, for one run over an abstract input Inputs[i] concretised to bytes,
     {"op":"Reset","inp":i,"cut":c}                          run over Inputs[i] with the sources truncated by CutChoices[c]
     {"op":"Call","cap":n}                                   read() entered with a destination of n bytes
     {"op":"Src","s":stream,"ret":k}                          a read of source `stream` delivered k bytes (-1: Interrupted, -2: other error)
     {"op":"Ret","ret":k|-1,"err":code|null,"st":state,"rem":owed,"t3":byte,"need":0|1,"av":[4],"ex":[4]}
   The Ret event carries hook H7's view of the decoder after the call: state, temp[3], range < 2^24, bytes buffered
   and not consumed per stream, extra_read_sizes. Every field is compared with the model's state: the model
   predicts the result of every call and the complete abstract state after it. decode() itself emits no event:
   the Run action is composed silently. *)
EXTENDS Bcj2Decoder, Json, IOUtils
Rec == ndJsonDeserialize(IOEnv.TRACE)
VARIABLES l
tvars == <<vars, l>>
Ev == Rec[l]
Is(op) == l <= Len(Rec) /\ Ev.op = op

ClassOf(b) == IF b = 15 THEN "F" ELSE IF b = 232 THEN "C" ELSE IF b = 233 THEN "P"
              ELSE IF b >= 128 /\ b <= 143 THEN "J" ELSE "O"

TInit ==
  /\ inp = 1 /\ cin = Inputs[1] /\ exp = ExpOf(Inputs[1]) /\ d = D0 /\ rd = R0(ExpOf(Inputs[1])) /\ hist = <<>>
  /\ sch = [cap |-> 1, ch |-> [s \in Streams |-> 1], n |-> [s \in Streams |-> 0], cut |-> 1]
  /\ l = 1 /\ TLCSet(1, 1)

Reset ==
  /\ Is("Reset")
  /\ inp' = Ev.inp /\ cin' = Inputs[Ev.inp] /\ exp' = ExpOf(Inputs[Ev.inp]) /\ d' = D0 /\ rd' = R0(ExpOf(Inputs[Ev.inp]))
  /\ sch' = [sch EXCEPT !.cut = Ev.cut]
  /\ UNCHANGED hist

RetMatches ==
  /\ rd.pc = "idle"
  /\ IF Ev.ret >= 0 THEN rd.last = Ok(Ev.ret) ELSE rd.last = Err(Ev.err)
  /\ d.st = Ev.st
  /\ rd.rem = Ev.rem
  /\ (d.rinit = 6 => d.need = (Ev.need = 1))
  /\ (d.rinit = 6 /\ d.outn > 0 => d.t3 = ClassOf(Ev.t3))
  /\ \A s \in Streams : Avail(d, s) = Ev.av[s + 1]
  /\ \A s \in {CALL, JUMP} : rd.extra[s] = Ev.ex[s + 1]

TNext ==
  \/ (l' = l /\ rd.pc = "run" /\ Run /\ UNCHANGED <<sch, hist>>)
  \/ /\ l' = l + 1
     /\ \/ Reset
        \/ (Is("Call") /\ CallP(Ev.cap) /\ UNCHANGED <<sch, hist>>)
        \/ (Is("Src") /\ Ev.ret >= 0 /\ rd.pc = "refill" /\ d.st = Ev.s /\ RefillP(Ev.ret) /\ UNCHANGED <<sch, hist>>)
        \/ (Is("Src") /\ Ev.ret = -1 /\ rd.pc = "refill" /\ d.st = Ev.s /\ IntrP /\ UNCHANGED <<sch, hist>>)
        \/ (Is("Src") /\ Ev.ret = -2 /\ rd.pc = "refill" /\ d.st = Ev.s /\ FailP /\ UNCHANGED <<sch, hist>>)
        \/ (Is("Ret") /\ RetMatches /\ UNCHANGED vars)

TSpec == TInit /\ [][TNext]_tvars
Track == (IF l > TLCGet(1) THEN TLCSet(1, l) ELSE TRUE)
Accepted ==
  /\ PrintT(<<"TRACE-REACHED", TLCGet(1) - 1, "OF", Len(Rec)>>)
  /\ IF TLCGet(1) = Len(Rec) + 1 THEN TRUE
     ELSE Print(<<"REJECTED after event", TLCGet(1) - 1, "next", Rec[TLCGet(1)]>>, FALSE)
\* property-level invariants evaluated in every reconstructed state
TraceInv == TypeOK /\ OutputOK /\ BufInv /\ Complete /\ NoSpuriousError
=============================================================================
