--------------------------- MODULE LzipContainer ---------------------------
(* LZIP container: the dictionary-size byte (src/lzip.rs encode_dict_size / decode_dict_size), the member
   splitting rule of LZIPWriter (src/lzip/writer.rs write / finish), the member loop of LZIPReader
   (src/lzip/reader.rs) and the backward member scan of LZIPReaderMT (src/lzip/reader_mt.rs scan_members),
   over abstract records  Hdr(dictbyte)  Body(csize, need)  Trailer(data_size, member_size).
   All sizes are bytes. The compressed size of a member is not a function of the model (cfg.cz).

   Variant constant: DictByteRoundsUp (see LzipDict.tla). *)
EXTENDS LzipDict

CONSTANTS
  Dicts,        \* LZMAOptions::dict_size values explored (bytes, before clamping)
  LimitOpts,    \* LZIPOptions::member_size values explored (bytes; 0 = None)
  WriteSizes,   \* sizes of write calls explored (bytes)
  MaxBytes,     \* bytes written per file, at most
  MaxCalls,     \* write calls per file, at most
  MaxMembers,   \* length of the oracle cz
  MaxFiles,     \* files concatenated, at most
  CSizes,       \* compressed sizes of a member picked from
  Fars          \* subset of BOOLEAN: does the data contain matches at distances up to the dictionary size

\* ---------------------------------------------------------------------------------------- writer
VARIABLES cfg,    \* [dict (clamped), limit, far, cz]
          ws,     \* writer state
          calls, file, phase, rd,
          prev    \* files already finished and concatenated in front: [n |-> count, total |-> bytes, recs |-> records, hist |-> <<[dict, limit, far, calls]>>]
vars == <<cfg, ws, calls, file, phase, rd, prev>>

HdrRec(d)        == [k |-> "Hdr", magic_ok |-> TRUE, version |-> 1, dictbyte |-> EncodeByte(d), dict |-> Decode(Encode(d))]
BodyRec(c, need) == [k |-> "Body", csize |-> c, need |-> need]
TrailerRec(u, c) == [k |-> "Trailer", crc_ok |-> TRUE, data_size |-> u, member_size |-> 6 + c + 20]

W0 == [open |-> FALSE, cur |-> 0, total |-> 0, out |-> <<>>, nm |-> 0, finished |-> FALSE]
EffLimit(c) == IF c.limit = 0 THEN 0 ELSE Max(c.limit, c.dict)      \* LZIPWriter::new clamps member_size to >= dict_size
CzAt(c, i) == IF i \in DOMAIN c.cz THEN c.cz[i] ELSE 1

StartMember(c, s) == [s EXCEPT !.out = Append(@, HdrRec(c.dict)), !.open = TRUE, !.cur = 0]
\* the distance the decoder needs: data with far matches uses the whole dictionary once the member is long enough
Need(c, u) == IF c.far THEN Min(c.dict, u) ELSE Min(u, 1)
FinishMember(c, s) ==
  LET cs == CzAt(c, s.nm + 1)
  IN [s EXCEPT !.out = Append(Append(@, BodyRec(cs, Need(c, s.cur))), TrailerRec(s.cur, cs)), !.open = FALSE, !.nm = @ + 1]

RECURSIVE WriteLoop(_, _, _)
WriteLoop(c, s, rem) ==
  IF rem = 0 THEN s
  ELSE LET lim  == EffLimit(c)
           s1   == IF lim > 0 /\ s.cur >= lim /\ s.open THEN FinishMember(c, s) ELSE s     \* should_finish_member && header_written
           s2   == IF ~s1.open THEN StartMember(c, s1) ELSE s1
           take == IF lim > 0 THEN Min(rem, lim - s2.cur) ELSE rem                           \* bytes_to_write
       IN IF take = 0 THEN WriteLoop(c, FinishMember(c, s2), rem)
          ELSE WriteLoop(c, [s2 EXCEPT !.cur = @ + take, !.total = @ + take], rem - take)

DoFinish(c, s) == FinishMember(c, IF s.open THEN s ELSE StartMember(c, s))

Cfgs == [dict : {Clamp(d) : d \in Dicts}, limit : LimitOpts, far : Fars, cz : [1..MaxMembers -> CSizes]]
RD0 == [st |-> "idle", pos |-> 1, out |-> 0, members |-> 0]

P0 == [n |-> 0, total |-> 0, recs |-> <<>>, hist |-> <<>>]
InitWith(c) == cfg = c /\ ws = W0 /\ calls = <<>> /\ file = <<>> /\ phase = "write" /\ rd = RD0 /\ prev = P0
Init == \E c \in Cfgs : InitWith(c)

Write(n) ==
  /\ phase = "write" /\ ws.total + n <= MaxBytes /\ Len(calls) < MaxCalls
  /\ ws' = WriteLoop(cfg, ws, n) /\ ws'.nm < MaxMembers
  /\ calls' = Append(calls, <<"w", n>>)
  /\ UNCHANGED <<cfg, file, phase, rd, prev>>

\* `file` is everything written so far: the finished files in front plus the members of this writer
Finish ==
  /\ phase = "write"
  /\ file' = prev.recs \o DoFinish(cfg, ws).out /\ ws' = [DoFinish(cfg, ws) EXCEPT !.finished = TRUE]
  /\ calls' = Append(calls, <<"x", 0>>) /\ phase' = "env"
  /\ UNCHANGED <<cfg, rd, prev>>

\* environment: concatenate another file written with other options, or start reading
NextFile(c) ==
  /\ phase = "env" /\ prev.n + 1 < MaxFiles
  /\ prev' = [n |-> prev.n + 1, total |-> prev.total + ws.total, recs |-> file,
              hist |-> Append(prev.hist, [dict |-> cfg.dict, limit |-> cfg.limit, far |-> cfg.far, calls |-> calls])]
  /\ cfg' = c /\ ws' = W0 /\ calls' = <<>> /\ phase' = "write"
  /\ UNCHANGED <<file, rd>>

StartRead == /\ phase = "env" /\ phase' = "read" /\ rd' = [RD0 EXCEPT !.st = "member"]
             /\ UNCHANGED <<cfg, ws, calls, file, prev>>

\* ---------------------------------------------------------------------------------------- reader (member loop)
Kind(i) == IF i <= Len(file) THEN file[i].k ELSE "EOF"
MemberOk(p) ==
  /\ Kind(p) = "Hdr" /\ Kind(p + 1) = "Body" /\ Kind(p + 2) = "Trailer"
  /\ file[p].magic_ok /\ file[p].version = 1 /\ DecodeByte(file[p].dictbyte) # 0
  /\ DecodeByte(file[p].dictbyte) >= file[p + 1].need                  \* else the LZ decoder reports "dist overflow"
  /\ file[p + 2].crc_ok /\ file[p + 2].member_size = 6 + file[p + 1].csize + 20

RMember ==
  /\ phase = "read" /\ rd.st = "member"
  /\ rd' = IF Kind(rd.pos) = "EOF" THEN [rd EXCEPT !.st = "eof"]
           ELSE IF MemberOk(rd.pos) THEN [rd EXCEPT !.pos = @ + 3, !.out = @ + file[rd.pos + 2].data_size, !.members = @ + 1]
           ELSE [rd EXCEPT !.st = "err"]
  /\ UNCHANGED <<cfg, ws, calls, file, phase, prev>>

RDone == /\ phase = "read" /\ rd.st \in {"eof", "err"} /\ phase' = "done" /\ UNCHANGED <<cfg, ws, calls, file, rd, prev>>

Next == \/ (phase = "write" /\ \E n \in WriteSizes : Write(n)) \/ Finish
        \/ (phase = "env" /\ prev.n + 1 < MaxFiles /\ \E c \in Cfgs : NextFile(c)) \/ StartRead
        \/ RMember \/ RDone
Spec == Init /\ [][Next]_vars

\* ---------------------------------------------------------------------------------------- format rules / properties
RECURSIVE MembersOf(_, _)
\* <<data sizes>> of a record sequence, or <<-1>> when it does not follow the grammar
MembersOf(f, i) ==
  IF i > Len(f) THEN <<>>
  ELSE IF /\ i + 2 <= Len(f) /\ f[i].k = "Hdr" /\ f[i + 1].k = "Body" /\ f[i + 2].k = "Trailer"
          /\ f[i].magic_ok /\ f[i].version = 1 /\ DecodeByte(f[i].dictbyte) # 0
          /\ f[i + 2].crc_ok # FALSE /\ f[i + 2].member_size = 6 + f[i + 1].csize + 20
       THEN LET r == MembersOf(f, i + 3) IN IF Len(r) > 0 /\ r[1] = 0 - 1 THEN r ELSE <<f[i + 2].data_size>> \o r
       ELSE <<0 - 1>>
WellFormedF(f) == Len(f) > 0 /\ (LET m == MembersOf(f, 1) IN Len(m) > 0 /\ m[1] # 0 - 1)
\* every header declares a dictionary at least as large as the one the encoder searched
DictCoversF(f, dict) == \A i \in 1..Len(f) : f[i].k = "Hdr" => DecodeByte(f[i].dictbyte) >= dict
RECURSIVE SumSeq(_, _)
SumSeq(s, i) == IF i > Len(s) THEN 0 ELSE s[i] + SumSeq(s, i + 1)

\* backward scan of LZIPReaderMT over byte offsets: the member starts it finds, in file order
MemberSizes(f) == [j \in 1..(Len(f) \div 3) |-> f[3 * j].member_size]
RECURSIVE ScanBack(_, _, _)
ScanBack(sizes, j, pos) == IF j = 0 THEN <<>> ELSE ScanBack(sizes, j - 1, pos - sizes[j]) \o <<pos - sizes[j]>>
RECURSIVE Starts(_, _, _)
Starts(sizes, j, pos) == IF j > Len(sizes) THEN <<>> ELSE <<pos>> \o Starts(sizes, j + 1, pos + sizes[j])

\* (writer-level properties are evaluated right after Finish, on the members of the file just written)
Written == phase = "env"
Mine == SubSeq(file, Len(prev.recs) + 1, Len(file))
WellFormed  == Written => (WellFormedF(Mine) /\ DictCoversF(Mine, cfg.dict) /\ WellFormedF(file))
Content     == Written => SumSeq(MembersOf(Mine, 1), 1) = ws.total
SizeLimit   == (Written /\ cfg.limit # 0) => \A j \in 1..Len(MembersOf(Mine, 1)) : MembersOf(Mine, 1)[j] <= Max(cfg.limit, cfg.dict)
MembersFull == (Written /\ cfg.limit # 0) =>
                 LET m == MembersOf(Mine, 1) IN \A j \in 1..(Len(m) - 1) : m[j] = Max(cfg.limit, cfg.dict)
\* C12: the backward scan of the MT reader finds the members of the whole (concatenated) file in file order
ScanOrder   == Written => LET sz == MemberSizes(file) IN ScanBack(sz, Len(sz), SumSeq(sz, 1)) = Starts(sz, 1, 0)
\* C02 / C12: every member of every concatenated file is decoded, in order
RoundTrip   == phase = "done" => (rd.st = "eof" /\ rd.out = prev.total + ws.total /\ rd.members = Len(file) \div 3)
TypeOK == phase \in {"write", "env", "read", "done"} /\ rd.st \in {"idle", "member", "eof", "err"}
=============================================================================
