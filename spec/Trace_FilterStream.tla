------------------------ MODULE Trace_FilterStream ------------------------
(* Trace validation of the real BCJReader / BCJWriter / DeltaWriter / DeltaReader against FilterStream with
   the real constants (B = 4096, K and A of the architecture, R = 256). The NDJSON file named by TRACE holds
   API-level events recorded by vh_filter through traced endpoints:
     {"op":"Reset","len":N,"heads":[[pos,step],..],"dist":d}    start of a run (known-head synthetic code)
     {"op":"ReadCall","n":n}  {"op":"Src","n":req,"ret":m}  {"op":"Read","n":n,"ret":k}        reader side
     {"op":"WriteCall","n":n} {"op":"Sink","n":req,"ret":m} {"op":"Write","n":n,"ret":k} {"op":"Flush"} writer
     {"op":"End","eq":0|1}    end of a writer run; eq = output equals the one-shot filtered bytes (observed)
   Every event must be the image of one action with the logged sizes bound; the loop phases of read() that
   produce no event are composed silently. For writer runs the End event additionally requires that the
   specification's prediction (does this partition change the output?) equals what was observed. *)
EXTENDS FilterStream, Json, IOUtils
Rec == ndJsonDeserialize(IOEnv.TRACE)
VARIABLES l, sk
tvars == <<vars, l, sk>>
Ev == Rec[l]
Is(op) == l <= Len(Rec) /\ Ev.op = op
Big == 1000000000

HF(hs) == LET P == {hs[i][1] : i \in DOMAIN hs}
          IN [p \in P |-> LET i == CHOOSE j \in DOMAIN hs : hs[j][1] = p IN hs[i][2]]

TInit == Init /\ l = 1 /\ sk = <<>> /\ TLCSet(1, 1)

Reset ==
  /\ Is("Reset")
  /\ len' = Ev.len /\ heads' = HF(Ev.heads)
  /\ r' = [R0 EXCEPT !.pc = "idle"] /\ w' = [W0 EXCEPT !.pc = "idle"]
  /\ d' = [D0 EXCEPT !.pc = "idle", !.dist = Ev.dist]
  /\ sk' = <<>>

\* write_all over a sink that accepts part of each request: requests q, q - ret1, ... for each non-empty part
RECURSIVE Ex(_, _, _, _)
Ex(s, k, parts, rem) ==
  IF rem = 0
    THEN IF parts = <<>> THEN k = Len(s) + 1 ELSE Ex(s, k, Tail(parts), Head(parts))
    ELSE k <= Len(s) /\ s[k][1] = rem /\ s[k][2] >= 1 /\ s[k][2] <= rem /\ Ex(s, k + 1, parts, rem - s[k][2])
NonZero(pt) == SelectSeq(pt, LAMBDA x : x > 0)
OneCallEach(s, parts) == Len(s) = Len(parts) /\ \A i \in 1..Len(s) : s[i][1] = parts[i]
Explains(s, pt) == IF WriteAll THEN Ex(s, 1, NonZero(pt), 0) ELSE OneCallEach(s, NonZero(pt))

ReaderEv ==
  \/ Is("ReadCall") /\ sk' = sk /\ IF Ev.n = 0 THEN UNCHANGED vars ELSE RCall(Ev.n)
  \/ Is("Read") /\ sk' = sk /\ Ev.n = 0 /\ Ev.ret = 0 /\ RCall(0)
  \/ Is("Read") /\ sk' = sk /\ Ev.n > 0 /\ RCopy /\ r'.pc = "idle" /\ r'.last = Ev.ret
  \/ Is("Src") /\ sk' = sk /\ Ev.n = Space /\ RFill(Ev.ret)

WriterEv ==
  \/ Is("WriteCall") /\ sk' = <<>> /\ UNCHANGED vars
  \/ Is("Sink") /\ sk' = Append(sk, <<Ev.n, Ev.ret>>) /\ UNCHANGED vars
  \/ Is("SinkFlush") /\ sk' = sk /\ UNCHANGED vars
  \/ Is("Flush") /\ sk' = sk /\ WFlush
  \/ /\ Is("Write") /\ sk' = <<>> /\ Ev.ret = Ev.n
     /\ LET pt == WParts(Ev.n)
            c1 == IF pt[1] > 0 /\ Len(sk) >= 1 THEN sk[1][2] ELSE Big
            c2 == IF pt[2] > 0 /\ Len(sk) >= 1 THEN sk[Len(sk)][2] ELSE Big
        IN Explains(sk, pt) /\ WWrite(Ev.n, c1, c2)
  \/ /\ Is("End") /\ sk' = sk /\ WFinish
     /\ (Ev.eq = 1) = (w'.conv = {<<h, h>> : h \in OneShot(heads, len)} /\ w'.sunk = len)

DeltaEv ==
  \/ Is("WriteCall") /\ sk' = <<>> /\ UNCHANGED vars
  \/ Is("Sink") /\ sk' = Append(sk, <<Ev.n, Ev.ret>>) /\ UNCHANGED vars
  \/ Is("SinkFlush") /\ sk' = sk /\ UNCHANGED vars
  \/ Is("Flush") /\ sk' = sk /\ UNCHANGED vars
  \/ /\ Is("Write") /\ sk' = <<>> /\ Ev.n = 0 /\ Ev.ret = 0 /\ UNCHANGED vars
  \/ /\ Is("Write") /\ sk' = <<>> /\ Ev.n > 0
     /\ IF WriteAll THEN Ex(sk, 1, <<Ev.n>>, 0) /\ Ev.ret = Ev.n /\ DWrite(Ev.n, Big)
        ELSE Len(sk) = 1 /\ sk[1][1] = Ev.n /\ Ev.ret = sk[1][2] /\ DWrite(Ev.n, sk[1][2])
  \/ /\ Is("End") /\ sk' = sk /\ UNCHANGED vars
     /\ (Ev.eq = 1) = (d.fed = len /\ Len(d.sunk) = len /\ DeltaHistory)
  \/ Is("ReadCall") /\ sk' = sk /\ UNCHANGED vars
  \/ Is("Src") /\ sk' = <<<<Ev.n, Ev.ret>>>> /\ UNCHANGED vars
  \/ /\ Is("Read") /\ sk' = <<>> /\ Len(sk) = 1 /\ sk[1][1] = Ev.n /\ Ev.ret = sk[1][2]
     /\ IF Ev.ret > 0 THEN DRead(Ev.ret) ELSE UNCHANGED vars

TNext ==
  \/ (l' = l /\ sk' = sk /\ Mode = "reader" /\ RCopy /\ r'.pc = "fill")
  \/ /\ l' = l + 1
     /\ \/ Reset
        \/ (Mode = "reader" /\ ReaderEv)
        \/ (Mode = "writer" /\ WriterEv)
        \/ (Mode = "delta" /\ DeltaEv)

TSpec == TInit /\ [][TNext]_tvars
Track == (IF l > TLCGet(1) THEN TLCSet(1, l) ELSE TRUE)
Accepted ==
  /\ PrintT(<<"TRACE-REACHED", TLCGet(1) - 1, "OF", Len(Rec)>>)
  /\ IF TLCGet(1) = Len(Rec) + 1 THEN TRUE
     ELSE Print(<<"REJECTED after event", TLCGet(1) - 1, "next", Rec[TLCGet(1)]>>, FALSE)
\* property-level invariants evaluated in every reconstructed state of a reader run
TraceInv == Mode = "reader" => (TypeOK /\ BufBound /\ ReaderInverse)
=============================================================================
