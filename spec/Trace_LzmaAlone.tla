-------------------------- MODULE Trace_LzmaAlone --------------------------
(* Validation of real LZMAWriter (.lzma, with header) call histories against LzmaAlone:

     Reset(id, exp)  Write(n, ok)*  Finish(ok)  End(hdr, accepted, finished)

   n in bytes, ok = the call returned Ok. Shaped = TRUE: each call's result must be the one the model
   predicts. Shaped = FALSE: the C18 contract stated on the observations alone (TVIOL lines, counted). *)
EXTENDS LzmaAlone, Json, IOUtils
CONSTANT Shaped
Rec == ndJsonDeserialize(IOEnv.TRACE)
VARIABLES l, run
tvars == <<vars, l, run>>
Ev == Rec[l]
Is(name) == l <= Len(Rec) /\ Ev.ev = name
R0 == [id |-> "none", exp |-> -1, acc |-> 0, over_ok |-> FALSE, short_ok |-> FALSE, ended |-> FALSE]
TInit == exp = -1 /\ cur = 0 /\ calls = <<>> /\ state = "open" /\ hdr = -1 /\ marker = TRUE /\ header = TRUE /\ l = 1 /\ run = R0 /\ TLCSet(1, 1) /\ TLCSet(3, 0)

Reset == /\ Is("Reset") /\ exp' = Ev.exp /\ cur' = 0 /\ calls' = <<>> /\ state' = "open" /\ marker' = Ev.marker /\ header' = Ev.header
         /\ hdr' = (IF Ev.header THEN Ev.exp ELSE -2)
         /\ run' = [R0 EXCEPT !.id = Ev.id, !.exp = Ev.exp]
\* observations kept for the property-level pass: bytes accepted, an accepted overrun, an accepted short finish
WriteEv ==
  /\ Is("Write")
  /\ run' = [run EXCEPT !.acc = IF Ev.ok THEN @ + Ev.n ELSE @,
                        !.over_ok = @ \/ (Ev.ok /\ run.exp # -1 /\ run.acc + Ev.n > run.exp)]
  /\ IF Shaped THEN Write(Ev.n) /\ calls'[Len(calls')].ok = Ev.ok ELSE UNCHANGED vars
FinishEv ==
  /\ Is("Finish")
  /\ run' = [run EXCEPT !.short_ok = Ev.ok /\ run.exp # -1 /\ run.acc # run.exp]
  /\ IF Shaped THEN Finish /\ calls'[Len(calls')].ok = Ev.ok ELSE UNCHANGED vars
EndEv == Is("End") /\ run' = [run EXCEPT !.ended = TRUE] /\ UNCHANGED vars
TNext == l' = l + 1 /\ (Reset \/ WriteEv \/ FinishEv \/ EndEv)
TSpec == TInit /\ [][TNext]_tvars

AtEnd == l > 1 /\ Rec[l - 1].ev = "End" /\ run.ended
E == Rec[l - 1]
Viol(name) == PrintT(<<"TVIOL", name, run.id>>) /\ TLCSet(3, TLCGet(3) + 1)
TNoOverrun    == AtEnd => (~run.over_ok \/ Viol("Overrun"))
TShortRefused == AtEnd => (~run.short_ok \/ Viol("ShortFinish"))
\* the header of a finished file with a declared size carries exactly the bytes written
THeaderExact  == AtEnd => ((~E.finished \/ ~header \/ run.exp = -1 \/ (E.hdr = run.acc /\ E.hdr = run.exp)) \/ Viol("Header"))
TMarker       == AtEnd => ((~E.finished \/ ~header \/ run.exp # -1 \/ E.hdr = -1) \/ Viol("Header"))

Track == (IF l > TLCGet(1) THEN TLCSet(1, l) ELSE TRUE)
Accepted ==
  /\ PrintT(<<"TRACE-REACHED", TLCGet(1) - 1, "OF", Len(Rec)>>)
  /\ PrintT(<<"TVIOL-COUNT", TLCGet(3)>>)
  /\ IF TLCGet(1) = Len(Rec) + 1 THEN TRUE
     ELSE Print(<<"REJECTED after event", TLCGet(1) - 1, "next", Rec[TLCGet(1)]>>, FALSE)
  /\ TLCGet(3) = 0
=============================================================================
