---------------------------- MODULE XzContainer ----------------------------
(* XZ container: the writer of src/xz/writer.rs (Write / Flush / Finish with its counters as coded),
   an environment that concatenates finished streams with stream padding / trailing bytes, and the
   reader of src/xz/reader.rs stepping through the grammar (incl. the multi-stream scan), over
   abstract records

     SH(check) BH(hsize) Data(csize, usize) Pad(n) Check(n) Index(recs, pad) Footer(backward) StreamPad(n) Trailing

   which are exactly the records the independent strict parser of the harness (harness/src/strict.rs)
   extracts from real files (Trace_XzContainer.tla validates those). Container overhead is counted in
   real bytes (only residues mod 4 and the sums matter); uncompressed data is counted in abstract
   units. The compressed size of a block is not a function of the model: it is drawn from CSizes per
   block (cfg.cz).

   Variant constants (as built at the start of the project -> repaired):
     IndexCountsHeader      FALSE: current_block_start_pos is taken after the block header, so the index
                                   "unpadded size" omits the header (D5)            -> TRUE
     EmptyInputWritesBlock  TRUE : finish() without any block still runs finish_current_block (D3) -> FALSE
     BlockLimitPerByte      FALSE: write() tests the block limit once per loop iteration and hands the
                                   whole rest of the buffer to the block (D17)      -> TRUE
     MagicTestInverted      TRUE : try_start_next_stream rejects the byte 0xFD it looks for (D14) -> FALSE
     ReaderChecksIndex      FALSE: the reader compares only the number of index records with the blocks it
                                   decoded, not their sizes (group B's C04 finding)   -> TRUE
     EofPaddingChecked      FALSE: stream padding followed by the end of the input is accepted whatever its
                                   length (group B's C04 / C05 finding)               -> TRUE *)
EXTENDS Integers, Sequences, FiniteSets, TLC

CONSTANTS
  CheckIds,        \* check ids the environment picks from: subset of {0, 1, 4, 10}
  LimitOpts,       \* XZOptions::block_size values picked from, in units; 0 = None
  DictUnits,       \* dictionary size in units (block_size is raised to it)
  HSizes,          \* block header sizes picked from (12, 16, 20, ...: function of the filter chain)
  CSizes,          \* compressed payload sizes picked from (residue mod 4 is what matters)
  MaxUnits,        \* units written per stream, at most
  MaxWrite,        \* units per write call, at most
  MaxBlocks,       \* length of the per-stream oracle cz
  AllowFlush,      \* explore flush() calls
  MaxStreams,      \* streams per file, at most
  Pads,            \* stream padding lengths picked from (bytes)
  Trailings,       \* kinds of trailing bytes after the last stream: subset of {"none","garbage"}
  Multis,          \* values of allow_multiple_streams explored: subset of BOOLEAN
  VliBase,         \* base of the multibyte integers (128 in the format; small in model checking)
  IndexCountsHeader, EmptyInputWritesBlock, BlockLimitPerByte, MagicTestInverted, ReaderChecksIndex, EofPaddingChecked

VARIABLES
  cfg,      \* options of the stream being written: [check, limit, dict, hsize, cz]
  ws,       \* writer state (counters of XZWriter)
  calls,    \* history of API calls of the stream being written (for scenario export)
  file,     \* records of everything written so far (finished streams, padding, trailing bytes)
  streams,  \* summary of finished streams: [check, limit, dict, hsize, units, calls, recs, nb]
  pads,     \* padding chosen after each finished stream
  trail,    \* "none" / "garbage" / "pending" (not chosen yet)
  phase,    \* "write" | "env" | "read" | "done"
  rd        \* reader state

vars == <<cfg, ws, calls, file, streams, pads, trail, phase, rd>>

Pad4(n) == (4 - (n % 4)) % 4
Max(a, b) == IF a > b THEN a ELSE b
Min(a, b) == IF a < b THEN a ELSE b
\* xz-file-format 2.1.1.2
CheckSize(id) == IF id = 0 THEN 0 ELSE IF id <= 3 THEN 4 ELSE IF id <= 6 THEN 8 ELSE IF id <= 9 THEN 16
                 ELSE IF id <= 12 THEN 32 ELSE 64
\* length of a multibyte integer: digits of v in base VliBase. The format's base is 128 (7 bits per byte); model checking
\* uses a small base so that the length classes of the record count and of the index records (1, 2, 3 bytes: 128 / 16384
\* blocks, sizes crossing 128 / 16384 bytes) are reached with a handful of blocks and units.
RECURSIVE VliLen(_)
VliLen(v) == IF v < VliBase THEN 1 ELSE 1 + VliLen(v \div VliBase)

RECURSIVE SumVli(_, _)
SumVli(rs, i) == IF i > Len(rs) THEN 0 ELSE VliLen(rs[i][1]) + VliLen(rs[i][2]) + SumVli(rs, i + 1)
IndexBody(rs) == 1 + VliLen(Len(rs)) + SumVli(rs, 1)           \* indicator + count + records
IndexSize(rs) == IndexBody(rs) + Pad4(IndexBody(rs)) + 4       \* + padding + CRC32

\* ---------------------------------------------------------------------------------------- records
SHRec(c)        == [k |-> "SH", check |-> c, crc_ok |-> TRUE, flags_ok |-> TRUE]
BHRec(h)        == [k |-> "BH", hsize |-> h, dc |-> 0 - 1, du |-> 0 - 1, reserved_ok |-> TRUE, pad_ok |-> TRUE,
                    crc_ok |-> TRUE, supported |-> TRUE]
DataRec(c, u)   == [k |-> "Data", csize |-> c, usize |-> u]
PadRec(n)       == [k |-> "Pad", n |-> n, zero |-> TRUE]
CheckRec(n)     == [k |-> "Check", n |-> n, ok |-> TRUE]
IndexRec(rs)    == [k |-> "Index", n |-> Len(rs), recs |-> rs, pad |-> Pad4(IndexBody(rs)), pad_zero |-> TRUE,
                    crc_ok |-> TRUE, size |-> IndexSize(rs)]
FooterRec(b)    == [k |-> "Footer", backward |-> b, flags_eq |-> TRUE, crc_ok |-> TRUE, magic_ok |-> TRUE]
StreamPadRec(n) == [k |-> "StreamPad", n |-> n]
TrailingRec     == [k |-> "Trailing"]

\* ---------------------------------------------------------------------------------------- writer
W0 == [hdr |-> FALSE, open |-> FALSE, bu |-> 0, sp |-> 0, w |-> 0, recs |-> <<>>, out |-> <<>>, nb |-> 0, total |-> 0]

EffLimit(c) == IF c.limit = 0 THEN 0 ELSE Max(c.limit, c.dict)     \* XZWriter::new clamps block_size to >= dict_size

WriteSH(c, s) == IF s.hdr THEN s
                 ELSE [s EXCEPT !.out = Append(@, SHRec(c.check)), !.hdr = TRUE, !.w = @ + 12]

\* prepare_next_block: write_block_header; current_block_start_pos := compressed_bytes_written
Prepare(c, s) ==
  LET sp == IF IndexCountsHeader THEN s.w ELSE s.w + c.hsize
  IN [s EXCEPT !.out = Append(@, BHRec(c.hsize)), !.w = @ + c.hsize, !.sp = sp, !.open = TRUE, !.bu = 0]

CzAt(c, i) == IF i \in DOMAIN c.cz THEN c.cz[i] ELSE 1      \* compressed size of the i-th block of the stream

\* finish_current_block. Without an open block (only reachable from finish() on empty input when
\* EmptyInputWritesBlock) the chain is the bare sink: nothing is emitted but padding and the check.
FinishBlock(c, s) ==
  LET cs   == IF s.open THEN CzAt(c, s.nb + 1) ELSE 0
      w1   == s.w + cs
      comp == w1 - s.sp                                  \* block_compressed_size as coded
      pad  == Pad4(comp)
      chk  == CheckSize(c.check)
      o1   == IF s.open THEN Append(s.out, DataRec(cs, s.bu)) ELSE s.out
      o2   == IF s.open \/ pad > 0 THEN Append(o1, PadRec(pad)) ELSE o1
      o3   == Append(o2, CheckRec(chk))
  IN [s EXCEPT !.out = o3, !.w = w1 + pad + chk, !.recs = Append(@, <<comp + chk, s.bu>>),
               !.open = FALSE, !.bu = 0, !.nb = IF s.open THEN @ + 1 ELSE @]

\* the loop of XZWriter::write over `rem` units
RECURSIVE WriteLoop(_, _, _)
WriteLoop(c, s, rem) ==
  IF rem = 0 THEN s
  ELSE LET lim  == EffLimit(c)
           s1   == IF lim > 0 /\ s.bu >= lim THEN FinishBlock(c, s) ELSE s        \* should_finish_block
           s2   == IF s1.bu = 0 THEN Prepare(c, s1) ELSE s1                       \* block_uncompressed_size == 0
           room == IF BlockLimitPerByte /\ lim > 0 THEN lim - s2.bu ELSE rem
           take == Min(rem, room)
           s3   == [s2 EXCEPT !.bu = @ + take, !.total = @ + take]
       IN WriteLoop(c, s3, rem - take)

DoWrite(c, s, n) == WriteLoop(c, WriteSH(c, s), n)

DoFinish(c, s) ==
  LET s1 == WriteSH(c, s)
      s2 == IF s1.open \/ EmptyInputWritesBlock THEN FinishBlock(c, s1) ELSE s1
      ix == IndexRec(s2.recs)
  IN [s2 EXCEPT !.out = Append(Append(@, ix), FooterRec(IndexSize(s2.recs))), !.w = @ + IndexSize(s2.recs) + 12]

Cfgs == [check : CheckIds, limit : LimitOpts, dict : {DictUnits}, hsize : HSizes, cz : [1..MaxBlocks -> CSizes]]

RD0 == [st |-> "idle", pos |-> 1, blocks |-> 0, out |-> 0, bytes |-> 0, multi |-> FALSE, check |-> 0, nstreams |-> 0, brecs |-> <<>>]

InitWith(c) ==
  /\ cfg = c /\ ws = W0 /\ calls = <<>> /\ file = <<>> /\ streams = <<>> /\ pads = <<>>
  /\ trail = "pending" /\ phase = "write" /\ rd = RD0
Init == \E c \in Cfgs : InitWith(c)

Write(n) ==
  /\ phase = "write" /\ ws.total + n <= MaxUnits /\ ws.nb < MaxBlocks
  /\ ws' = DoWrite(cfg, ws, n) /\ ws'.nb < MaxBlocks
  /\ calls' = Append(calls, <<"w", n>>)
  /\ UNCHANGED <<cfg, file, streams, pads, trail, phase, rd>>

\* flush() forwards to the LZMA2 writer of the open block: no container record, no counter changes
Flush ==
  /\ phase = "write" /\ AllowFlush /\ Len(calls) > 0 /\ calls[Len(calls)][1] = "w"
  /\ calls' = Append(calls, <<"f", 0>>)
  /\ UNCHANGED <<cfg, ws, file, streams, pads, trail, phase, rd>>

Finish ==
  /\ phase = "write"
  /\ LET s == DoFinish(cfg, ws) IN
       /\ file' = file \o s.out
       /\ streams' = Append(streams, [check |-> cfg.check, limit |-> cfg.limit, dict |-> cfg.dict, hsize |-> cfg.hsize, units |-> ws.total,
                                      calls |-> Append(calls, <<"x", 0>>), recs |-> s.out, nb |-> s.nb])
  /\ phase' = "env" /\ ws' = W0 /\ calls' = <<>>
  /\ UNCHANGED <<cfg, pads, trail, rd>>

\* environment: another stream after k bytes of padding, or the end of the file (padding, trailing bytes)
NextStream(k, c) ==
  /\ phase = "env" /\ Len(streams) < MaxStreams
  /\ file' = IF k > 0 THEN Append(file, StreamPadRec(k)) ELSE file
  /\ pads' = Append(pads, k) /\ cfg' = c /\ phase' = "write"
  /\ UNCHANGED <<ws, calls, streams, trail, rd>>

EndFile(k, t, m) ==
  /\ phase = "env"
  /\ LET f1 == IF k > 0 THEN Append(file, StreamPadRec(k)) ELSE file
     IN file' = IF t = "garbage" THEN Append(f1, TrailingRec) ELSE f1
  /\ pads' = Append(pads, k) /\ trail' = t /\ phase' = "read"
  /\ rd' = [RD0 EXCEPT !.st = "hdr", !.multi = m]
  /\ UNCHANGED <<cfg, ws, calls, streams>>

\* ---------------------------------------------------------------------------------------- reader
Has(i) == i <= Len(file)
Kind(i) == IF Has(i) THEN file[i].k ELSE "EOF"
Fail == [rd EXCEPT !.st = "err"]

SHOk(r) == r.crc_ok /\ r.flags_ok /\ r.check \in {0, 1, 4, 10}       \* CheckType::from_byte

\* ensure_stream_header (first stream): StreamHeader::parse
RHeader ==
  /\ phase = "read" /\ rd.st = "hdr"
  /\ rd' = IF Kind(rd.pos) = "SH" /\ SHOk(file[rd.pos])
             THEN [rd EXCEPT !.st = "blocks", !.pos = @ + 1, !.bytes = @ + 12, !.check = file[rd.pos].check, !.blocks = 0, !.brecs = <<>>]
             ELSE Fail
  /\ UNCHANGED <<cfg, ws, calls, file, streams, pads, trail, phase>>

\* prepare_next_block -> Some(header); read() drains the LZMA2 chain, consume_padding, verify_block_checksum
BlockOk(p) ==
  /\ Kind(p) = "BH" /\ Kind(p + 1) = "Data" /\ Kind(p + 2) = "Pad" /\ Kind(p + 3) = "Check"
  /\ file[p].crc_ok /\ file[p].pad_ok /\ file[p].supported /\ file[p].hsize >= 8 /\ file[p].hsize <= 1024
  /\ file[p + 2].n = Pad4(rd.bytes + file[p].hsize + file[p + 1].csize) /\ file[p + 2].zero   \* compressed_bytes_read % 4
  /\ file[p + 3].n = CheckSize(rd.check) /\ file[p + 3].ok

RBlock ==
  /\ phase = "read" /\ rd.st = "blocks" /\ Kind(rd.pos) \notin {"Index"}
  /\ rd' = IF BlockOk(rd.pos)
             THEN [rd EXCEPT !.pos = @ + 4, !.blocks = @ + 1, !.out = @ + file[rd.pos + 1].usize,
                             !.bytes = @ + file[rd.pos].hsize + file[rd.pos + 1].csize + file[rd.pos + 2].n + file[rd.pos + 3].n,
                             !.brecs = Append(@, <<file[rd.pos].hsize + file[rd.pos + 1].csize + file[rd.pos + 3].n, file[rd.pos + 1].usize>>)]
             ELSE Fail
  /\ UNCHANGED <<cfg, ws, calls, file, streams, pads, trail, phase>>

\* prepare_next_block -> None: parse_index_and_footer. The reader compares the record count (and, with
\* ReaderChecksIndex, the unpadded / uncompressed sizes) with the blocks it decoded, checks padding and CRCs,
\* and the footer's CRC / flags / magic.
IndexOk(p) ==
  /\ file[p].n = rd.blocks /\ file[p].crc_ok /\ file[p].pad_zero
  /\ file[p].pad = Pad4(IndexBody(file[p].recs))       \* Index::parse recomputes the byte count from the values it read
  /\ \A i \in 1..Len(file[p].recs) : file[p].recs[i][1] # 0
  /\ (ReaderChecksIndex => file[p].recs = rd.brecs)
  /\ Kind(p + 1) = "Footer" /\ file[p + 1].crc_ok /\ file[p + 1].flags_eq /\ file[p + 1].magic_ok

RIndex ==
  /\ phase = "read" /\ rd.st = "blocks" /\ Kind(rd.pos) = "Index"
  /\ rd' = IF IndexOk(rd.pos)
             THEN [rd EXCEPT !.pos = @ + 2, !.bytes = @ + file[rd.pos].size + 12, !.nstreams = @ + 1,
                             !.st = IF rd.multi THEN "scan" ELSE "eof"]
             ELSE Fail
  /\ UNCHANGED <<cfg, ws, calls, file, streams, pads, trail, phase>>

\* try_start_next_stream: zero bytes are skipped; end of input ends the file (the padding must be a multiple of 4,
\* checked only with EofPaddingChecked); a non-zero byte must start the stream magic, and then the padding must be a
\* multiple of 4
RScan ==
  /\ phase = "read" /\ rd.st = "scan"
  /\ LET p  == rd.pos
         k  == IF Kind(p) = "StreamPad" THEN file[p].n ELSE 0
         q  == IF Kind(p) = "StreamPad" THEN p + 1 ELSE p
     IN rd' = IF Kind(q) = "EOF" THEN (IF EofPaddingChecked /\ k % 4 # 0 THEN Fail ELSE [rd EXCEPT !.st = "eof", !.pos = q, !.bytes = @ + k])
              ELSE IF Kind(q) = "SH" /\ ~MagicTestInverted /\ k % 4 = 0 /\ SHOk(file[q])
                THEN [rd EXCEPT !.st = "blocks", !.pos = q + 1, !.bytes = @ + k + 12, !.check = file[q].check, !.blocks = 0, !.brecs = <<>>]
                ELSE Fail
  /\ UNCHANGED <<cfg, ws, calls, file, streams, pads, trail, phase>>

RDone == /\ phase = "read" /\ rd.st \in {"eof", "err"} /\ phase' = "done"
         /\ UNCHANGED <<cfg, ws, calls, file, streams, pads, trail, rd>>

Next ==
  \/ (phase = "write" /\ \E n \in 1..MaxWrite : Write(n))
  \/ Flush \/ Finish
  \/ (phase = "env" /\ Len(streams) < MaxStreams /\ \E k \in Pads, c \in Cfgs : NextStream(k, c))
  \/ (phase = "env" /\ \E k \in Pads, t \in Trailings, m \in Multis : EndFile(k, t, m))
  \/ RHeader \/ RBlock \/ RIndex \/ RScan \/ RDone

Spec == Init /\ [][Next]_vars

\* ---------------------------------------------------------------------------------------- format rules
\* xz-file-format 1.x over a record sequence f. Stream(f, i) parses one stream starting at record i and
\* returns the index after its footer, or 0 when the records do not follow the rules.
RECURSIVE BlocksEnd(_, _, _, _)
\* returns <<next index, sequence of <<unpadded, uncompressed>> >> or <<0, <<>> >>
BlocksEnd(f, i, chk, acc) ==
  IF i > Len(f) THEN <<0, acc>>
  ELSE IF f[i].k = "Index" THEN <<i, acc>>
  ELSE IF /\ f[i].k = "BH" /\ i + 3 <= Len(f) /\ f[i+1].k = "Data" /\ f[i+2].k = "Pad" /\ f[i+3].k = "Check"
          /\ f[i].hsize % 4 = 0 /\ f[i].hsize >= 8 /\ f[i].hsize <= 1024          \* 3.1.1
          /\ f[i].reserved_ok /\ f[i].pad_ok /\ f[i].crc_ok                        \* 3.1.2, 3.1.6, 3.1.7
          /\ (f[i].dc # 0 - 1 => f[i].dc = f[i+1].csize) /\ (f[i].du # 0 - 1 => f[i].du = f[i+1].usize)   \* 3.1.3, 3.1.4
          /\ f[i+1].csize > 0
          /\ f[i+2].n = Pad4(f[i+1].csize) /\ f[i+2].zero                          \* 3.3 block padding
          /\ f[i+3].n = chk /\ f[i+3].ok # FALSE                                   \* 3.4 check
       THEN BlocksEnd(f, i + 4, chk, Append(acc, <<f[i].hsize + f[i+1].csize + chk, f[i+1].usize>>))
       ELSE <<0, acc>>

StreamEnd(f, i) ==
  IF ~(i <= Len(f) /\ f[i].k = "SH" /\ f[i].crc_ok /\ f[i].flags_ok) THEN 0
  ELSE LET chk == CheckSize(f[i].check)
           be  == BlocksEnd(f, i + 1, chk, <<>>)
           j   == be[1]
       IN IF j = 0 \/ j + 1 > Len(f) THEN 0
          ELSE IF /\ f[j].k = "Index" /\ f[j+1].k = "Footer"
                  /\ f[j].n = Len(be[2]) /\ f[j].recs = be[2]                      \* 4.2, 4.3: one record per block, exact sizes
                  /\ f[j].pad = Pad4(IndexBody(f[j].recs)) /\ f[j].pad_zero /\ f[j].crc_ok    \* 4.4, 4.5
                  /\ f[j].size = IndexSize(f[j].recs)
                  /\ f[j+1].backward = f[j].size /\ f[j+1].flags_eq /\ f[j+1].crc_ok /\ f[j+1].magic_ok  \* 2.1.2
               THEN j + 2 ELSE 0

RECURSIVE FileOk(_, _)
\* 2. overall structure: streams separated (and followed) by stream padding of a multiple of four bytes
FileOk(f, i) ==
  IF i > Len(f) THEN TRUE
  ELSE IF f[i].k = "StreamPad" THEN i > 1 /\ f[i].n % 4 = 0 /\ FileOk(f, i + 1)
  ELSE LET e == StreamEnd(f, i) IN e # 0 /\ FileOk(f, e)

WellFormedF(f) == Len(f) > 0 /\ f[1].k = "SH" /\ FileOk(f, 1)

\* block sizes of a single stream's records
RECURSIVE BlockUs(_, _)
BlockUs(f, i) == IF i > Len(f) THEN <<>>
                 ELSE IF f[i].k = "Data" THEN <<f[i].usize>> \o BlockUs(f, i + 1) ELSE BlockUs(f, i + 1)
RECURSIVE SumSeq(_, _)
SumSeq(s, i) == IF i > Len(s) THEN 0 ELSE s[i] + SumSeq(s, i + 1)

\* encoding-length classes of a finished stream's index: <<record count, longest unpadded size, longest uncompressed size>>
RECURSIVE MaxVli(_, _, _)
MaxVli(rs, k, i) == IF i > Len(rs) THEN 1 ELSE Max(VliLen(rs[i][k]), MaxVli(rs, k, i + 1))
IndexRecsOf(f) == LET I == {i \in 1..Len(f) : f[i].k = "Index"} IN IF I = {} THEN <<>> ELSE f[CHOOSE i \in I : TRUE].recs
VliClasses(f) == <<VliLen(Len(IndexRecsOf(f))), MaxVli(IndexRecsOf(f), 1, 1), MaxVli(IndexRecsOf(f), 2, 1)>>

\* ---------------------------------------------------------------------------------------- properties
\* (the stream-level properties are evaluated in the state right after Finish, phase = "env": `streams` only changes there)
\* every stream the writer finishes is a well-formed .xz stream (C02 / C03)
WellFormed == phase = "env" => \A i \in 1..Len(streams) : WellFormedF(streams[i].recs)
\* the blocks of a stream hold exactly the units written, in order (C02: nothing lost or duplicated)
Content == phase = "env" => \A i \in 1..Len(streams) : SumSeq(BlockUs(streams[i].recs, 1), 1) = streams[i].units
\* C18: every block holds at most max(block_size, dict) units
SizeLimit == phase = "env" => \A i \in 1..Len(streams) :
               streams[i].limit # 0 =>
                 \A j \in 1..Len(BlockUs(streams[i].recs, 1)) : BlockUs(streams[i].recs, 1)[j] <= Max(streams[i].limit, streams[i].dict)
\* C18 (exactness, as for the LZIP writer): with a limit every block but the last is full
BlocksFull == phase = "env" => \A i \in 1..Len(streams) :
               streams[i].limit # 0 =>
                 LET us == BlockUs(streams[i].recs, 1) IN \A j \in 1..(Len(us) - 1) : us[j] = Max(streams[i].limit, streams[i].dict)

Done == phase = "done"
TotalUnits == SumSeq([i \in 1..Len(streams) |-> streams[i].units], 1)
AllPadsOk == \A i \in 1..Len(pads) : pads[i] % 4 = 0
\* C02: a single stream without trailing bytes decodes to what was written
RoundTrip == (Done /\ Len(streams) = 1 /\ trail = "none" /\ pads[1] % 4 = 0) => (rd.st = "eof" /\ rd.out = TotalUnits)
\* C12: concatenation
Concat == Done =>
  /\ (rd.multi /\ trail = "none" /\ AllPadsOk) => (rd.st = "eof" /\ rd.out = TotalUnits)
  /\ (rd.multi /\ ~AllPadsOk) => rd.st = "err"                       \* malformed padding (between or after streams) is rejected
  /\ (rd.multi /\ trail = "garbage") => rd.st = "err"
  /\ ~rd.multi => (rd.st = "eof" /\ rd.out = streams[1].units)        \* stops after the first stream
\* C16: a single-stream reader ends exactly behind the footer of the first stream
ConsumesExactly == (Done /\ ~rd.multi) => (rd.st = "eof" /\ rd.pos = Len(streams[1].recs) + 1)

TypeOK == /\ phase \in {"write", "env", "read", "done"} /\ rd.st \in {"idle", "hdr", "blocks", "scan", "eof", "err"}
          /\ trail \in {"pending", "none", "garbage"}
=============================================================================
