--------------------------- MODULE Trace_MtWriter ---------------------------
(* Trace validation of the real LZMA2WriterMT / LZIPWriterMT against MtWriter; same event format as
   Trace_MtReader. *)
EXTENDS MtWriter, Json, IOUtils, Integers
Rec == ndJsonDeserialize(IOEnv.TRACE)
VARIABLE l
tvars == <<vars, l>>
Ev == Rec[l]
Is(t, op, o) == l <= Len(Rec) /\ Ev.t = t /\ Ev.op = op /\ Ev.o = o
TInit == Init /\ l = 1 /\ TLCSet(1, 1)
B(x) == IF x THEN 1 ELSE 0

CoordEv ==
  \/ (l <= Len(Rec) /\ Ev.t = 0 /\ Ev.op = "Spawn" /\ C.spawned + 1 = Ev.o /\ (CNew \/ CSSpawn))
  \/ Is(0, "Lock", 0)   /\ (CS0 \/ CSLock \/ CSLen \/ CXZ2l \/ CDrop2l)
  \/ Is(0, "Unlock", 0) /\ (CS0u \/ CSUnlock \/ CSLenU \/ CXZ2u \/ CDrop2u)
  \/ Is(0, "ALoad", 0)  /\ CSLoad /\ Ev.v = B(Q.closed)
  \/ Is(0, "NotifyOne", 0) /\ CSNotifyW(Ev.v)
  \/ Is(0, "ALoad", 2)  /\ CSAct /\ Ev.v = SH.active
  \/ Is(0, "Lock", 1)   /\ (CG0Lock \/ CGE1)
  \/ Is(0, "Unlock", 1) /\ (CG1u \/ CGE2)
  \/ Is(0, "Recv", 0)   /\ (CGRecv \/ CGRecvF) /\ Ev.v = B(CH.msgs # <<>>)
  \/ Is(0, "TryRecv", 0) /\ CGTry /\ Ev.v = (IF CH.msgs # <<>> THEN 0 ELSE IF CH.senders = 0 THEN 2 ELSE 1)
  \/ Is(0, "AStore", 1) /\ (CXZ1 \/ CDrop1) /\ Ev.v = 1
  \/ Is(0, "AStore", 0) /\ (CXZ2 \/ CDrop2) /\ Ev.v = 1
  \/ Is(0, "NotifyAll", 0) /\ (CXZ3 \/ CDrop3)
  \/ Is(0, "DropReceiver", 0) /\ CDrop4
  \/ Is(0, "DropSender", 0) /\ CDrop5
  \/ Is(0, "Exit", -1) /\ CExit

WorkerEv(w) ==
  \/ Is(w, "ALoad", 1) /\ WTop(w) /\ Ev.v = B(SH.shutdown)
  \/ Is(w, "Lock", 0) /\ WLock(w)
  \/ Is(w, "Unlock", 0) /\ (WGotUnlock(w) \/ WNoneUnlock(w))
  \/ Is(w, "ALoad", 0) /\ WChk(w) /\ Ev.v = B(Q.closed)
  \/ Is(w, "CvWait", 0) /\ WWait(w)
  \/ Is(w, "CvWake", 0) /\ WWake(w)
  \/ (Is(w, "AAdd", 2) /\ Ev.v = 1 /\ WInc(w))
  \/ (Is(w, "AAdd", 2) /\ Ev.v = -1 /\ WDec(w))
  \/ Is(w, "Send", 0) /\ (WSend(w) \/ WWakeSend(w)) /\ Ev.v = B(CH.rxAlive)
  \/ Is(w, "Lock", 1) /\ WEsLock(w)
  \/ Is(w, "Unlock", 1) /\ WEsUnlock(w)
  \/ Is(w, "AStore", 1) /\ WShut(w) /\ Ev.v = 1
  \/ Is(w, "DropSender", 0) /\ WDropTx(w)
  \/ Is(w, "Exit", -1) /\ WExit(w)

Reset == l <= Len(Rec) /\ Ev.op = "Reset" /\ Q' = Q0 /\ CH' = CH0 /\ SH' = SH0 /\ C' = C0 /\ W' = W0
UserEv == l <= Len(Rec) /\ Ev.op = "User" /\ UNCHANGED vars

TNext ==
  \/ (l' = l /\ (CCall \/ CG0Hit \/ CFlChk \/ CXAfter \/ CDrop0))
  \/ (l' = l + 1 /\ (CoordEv \/ (\E w \in Workers : WorkerEv(w)) \/ Reset \/ UserEv))

TSpec == TInit /\ [][TNext]_tvars
Track == (IF l > TLCGet(1) THEN TLCSet(1, l) ELSE TRUE)
Accepted ==
  /\ PrintT(<<"TRACE-REACHED", TLCGet(1) - 1, "OF", Len(Rec)>>)
  /\ IF TLCGet(1) = Len(Rec) + 1 THEN TRUE
     ELSE Print(<<"REJECTED after event", TLCGet(1) - 1, "next", Rec[TLCGet(1)]>>, FALSE)
=============================================================================
