---------------------------- MODULE Trace_RangeCoder ----------------------------
(* Real-width trace validation of the range coder (src/enc/range_enc.rs, src/range_dec.rs) against the limb
   formulation RangeCoderLimb.tla (LB = 16, ShiftBits = 8, ModelBits = 11, MoveBits = 5), which RangeCoderLimbEq.tla
   proves equal to RangeCoder.tla at reduced width. NDJSON lines (environment variable TRACE), per .lzma round trip:
     {"side":"X"}                                                    new run
     {"side":"RE","p":prob before | -1 direct bit | -2 finish,"q":prob after,"b":bit,
      "l":[low limbs],"r":[range limbs],"c":cache,"cs":cache_size,"n":bytes pushed}      encoder state AFTER the bit
     {"side":"S","bytes":[...]}                                      the range coder stream the real encoder produced
     {"side":"RD","p":prob before | -1 direct | -3 initialisation,"q","b","c":[code limbs],"r":[range limbs],
      "n":bytes pulled}                                              decoder state AFTER the bit
     {"side":"F","pulled":n}                                         end of the decode
   Checked: every logged state is the image of the previous one (carry propagation, cache / cache_size, probability
   updates of both sides); Encode's output equals the real stream; the decoder run over that stream reproduces the
   logged bits; BytesPulled = BytesPushed after the final lazy normalisation and code = 0 (C16). *)
EXTENDS RangeCoderLimb, TLC, Json, IOUtils

Rec == ndJsonDeserialize(IOEnv.TRACE)
VARIABLES l, te, td, sidx
tvars == <<l, te, td, sidx>>
Ev == Rec[l]
Is(s) == l <= Len(Rec) /\ Ev.side = s

D0 == [code |-> <<0, 0>>, range |-> <<0, 0>>, pos |-> 0]
TInit == l = 1 /\ te = LEnc0 /\ td = D0 /\ sidx = 0 /\ TLCSet(1, 1)

L2(x) == <<x[1], x[2]>>
L3(x) == <<x[1], x[2], x[3]>>
EncMatches(e) == /\ e.low = L3(Ev.l) /\ e.range = L2(Ev.r) /\ e.cache = Ev.c /\ e.cacheSize = Ev.cs
                 /\ Len(e.out) = Ev.n

Reset == Is("X") /\ te' = LEnc0 /\ td' = D0 /\ sidx' = 0

EncEv ==
  /\ Is("RE")
  /\ te' = (CASE Ev.p >= 0 -> LEncodeBit(te, Ev.p, Ev.b)
              [] Ev.p = -1 -> LEncodeDirectBit(te, Ev.b)
              [] Ev.p = -2 -> LFinish(te))
  /\ EncMatches(te')
  /\ Ev.p >= 0 => Ev.q = LEncProb(Ev.p, Ev.b)
  /\ UNCHANGED <<td, sidx>>

\* the finished encoder output is the real stream
StreamEv == /\ Is("S") /\ te.out = Ev.bytes /\ sidx' = l /\ UNCHANGED <<te, td>>

Buf == Rec[sidx].bytes               \* positions are absolute: the five initialisation bytes included
DecMatches(d) == d.code = L2(Ev.c) /\ d.range = L2(Ev.r) /\ d.pos = Ev.n

DecEv ==
  /\ Is("RD") /\ sidx > 0
  /\ IF Ev.p = -3
       THEN \* new_stream: first byte 0, code = next four bytes
            /\ Buf[1] = 0
            /\ td' = [code |-> <<Buf[2] * 256 + Buf[3], Buf[4] * 256 + Buf[5]>>, range |-> <<65535, 65535>>, pos |-> 5]
       ELSE LET r == IF Ev.p >= 0 THEN LDecodeBit(td, Buf, Ev.p) ELSE LDecodeDirectBit(td, Buf)
            IN /\ td' = r[1] /\ Ev.b = r[2]
               /\ Ev.p >= 0 => Ev.q = LDecProb(Ev.p, Ev.b)
  /\ DecMatches(td')
  /\ UNCHANGED <<te, sidx>>

\* end of decode: after the final lazy normalisation everything pushed has been pulled, the code register is 0
Final ==
  /\ Is("F") /\ sidx > 0
  /\ LET d == LNormalize(td, Buf) IN
     /\ d.pos = Len(Buf) /\ Ev.pulled = Len(Buf) /\ d.code = <<0, 0>>
  /\ UNCHANGED <<te, td, sidx>>

TNext == l' = l + 1 /\ (Reset \/ EncEv \/ StreamEv \/ DecEv \/ Final)
TSpec == TInit /\ [][TNext]_tvars

Track == (IF l > TLCGet(1) THEN TLCSet(1, l) ELSE TRUE)
Accepted ==
  /\ PrintT(<<"TRACE-REACHED", TLCGet(1) - 1, "OF", Len(Rec)>>)
  /\ IF TLCGet(1) = Len(Rec) + 1 THEN TRUE
     ELSE Print(<<"REJECTED after event", TLCGet(1) - 1, "next", Rec[TLCGet(1)]>>, FALSE)
=============================================================================
