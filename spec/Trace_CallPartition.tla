------------------------ MODULE Trace_CallPartition ------------------------
(* Trace validation of API-level traces of the real writers and readers against the caller-facing contract
   CallPartition, at byte granularity (a unit is a byte; N is per run and therefore a variable here).
   Events (NDJSON, recorded by vh_part / vh_filter through traced endpoints):
     {"op":"Reset","total":n}                         a new run; n bytes of input (writer) / content (reader)
     {"op":"WriteCall","n":n} {"op":"Write","n":n,"ret":k} {"op":"Flush","ret":0} {"op":"Finish","ret":0}
     {"op":"Sink",..} {"op":"SinkFlush"}              what the writer forwarded (sizes are encoded bytes: no
                                                      relation to units is claimed, the events are skipped)
     {"op":"ReadCall","n":n} {"op":"Read","n":n,"ret":k} {"op":"Src",..}
     {"op":"Obs","ok":0|1,"len":m}                    observed byte-level oracle: writer - the sink decodes to
                                                      the concatenation of the slices; reader - the bytes
                                                      delivered equal the content. The contract requires ok = 1. *)
EXTENDS Naturals, Sequences, TLC, Json, IOUtils, Integers
CONSTANT Side
Rec == ndJsonDeserialize(IOEnv.TRACE)
VARIABLES l, total, given, fin, delivered, eof, obs
tvars == <<l, total, given, fin, delivered, eof, obs>>
Ev == Rec[l]
Is(op) == l <= Len(Rec) /\ Ev.op = op
TInit == l = 1 /\ total = 0 /\ given = 0 /\ fin = FALSE /\ delivered = 0 /\ eof = FALSE /\ obs = TRUE /\ TLCSet(1, 1)

Reset == Is("Reset") /\ total' = Ev.total /\ given' = 0 /\ fin' = FALSE /\ delivered' = 0 /\ eof' = FALSE /\ obs' = FALSE
Skip == (Is("Sink") \/ Is("SinkFlush") \/ Is("Src") \/ Is("WriteCall") \/ Is("ReadCall"))
        /\ UNCHANGED <<total, given, fin, delivered, eof, obs>>

WriterEv ==
  \/ /\ Is("Write") /\ ~fin
     /\ Ev.ret >= 0 /\ Ev.ret <= Ev.n /\ (Ev.n > 0 => Ev.ret > 0)       \* an accepted count, progress on non-empty slices
     /\ given' = given + Ev.ret /\ given' <= total
     /\ UNCHANGED <<total, fin, delivered, eof, obs>>
  \/ /\ Is("Flush") /\ ~fin /\ Ev.ret = 0 /\ UNCHANGED <<total, given, fin, delivered, eof, obs>>
  \/ /\ Is("Finish") /\ ~fin /\ Ev.ret = 0 /\ given = total               \* everything handed over was accepted
     /\ fin' = TRUE /\ UNCHANGED <<total, given, delivered, eof, obs>>
  \/ /\ Is("Obs") /\ fin /\ Ev.ok = 1 /\ Ev.len = total                   \* PartitionIndependent, observed
     /\ obs' = TRUE /\ UNCHANGED <<total, given, fin, delivered, eof>>

ReaderEv ==
  \/ /\ Is("Read") /\ Ev.n = 0 /\ Ev.ret = 0                               \* ZeroReadNoop
     /\ UNCHANGED <<total, given, fin, delivered, eof, obs>>
  \/ /\ Is("Read") /\ Ev.n > 0 /\ ~eof /\ Ev.ret >= 0 /\ Ev.ret <= Ev.n
     /\ (Ev.ret = 0) = (delivered = total)                                 \* 0 exactly at the end of the content
     /\ delivered' = delivered + Ev.ret /\ delivered' <= total /\ eof' = (Ev.ret = 0)
     /\ UNCHANGED <<total, given, fin, obs>>
  \/ /\ Is("Read") /\ Ev.n > 0 /\ eof /\ Ev.ret = 0                        \* EofSticky
     /\ UNCHANGED <<total, given, fin, delivered, eof, obs>>
  \/ /\ Is("Obs") /\ eof /\ Ev.ok = 1 /\ Ev.len = total                    \* SizeIndependent, observed
     /\ obs' = TRUE /\ UNCHANGED <<total, given, fin, delivered, eof>>

TNext == l' = l + 1 /\ (Reset \/ Skip \/ (Side = "writer" /\ WriterEv) \/ (Side = "reader" /\ ReaderEv))
TSpec == TInit /\ [][TNext]_tvars
Track == (IF l > TLCGet(1) THEN TLCSet(1, l) ELSE TRUE)
Accepted ==
  /\ PrintT(<<"TRACE-REACHED", TLCGet(1) - 1, "OF", Len(Rec)>>)
  /\ IF TLCGet(1) = Len(Rec) + 1 THEN TRUE
     ELSE Print(<<"REJECTED after event", TLCGet(1) - 1, "next", Rec[TLCGet(1)]>>, FALSE)
=============================================================================
