-------------------------- MODULE Trace_MemModel --------------------------
(* Trace validation of memory measurements against MemModel. Every line of the NDJSON file named by TRACE is one
   measurement taken by vh_mem with a counting global allocator around the real construction and use of an
   object, next to what the crate's public estimator returned for the same parameters:
     {"op":"Enc","kind":..,"dict":..,"mode":..,"mf":..,"lclp":..,"est":KiB,"peak":KiB}     LZMA2Writer / LZMAWriter
     {"op":"Dec","kind":"lzma"|"lzma2","dict":..,"lclp":..,"est":KiB,"peak":KiB}           LZMAReader / LZMA2Reader
     {"op":"Est","kind":..,"dict":..,"mode":..,"mf":..,"lclp":..,"est":KiB,"dlz":KiB,"dlz2":KiB}  estimators only
   Each event must satisfy, with the logged values bound:
     Formula    the estimator returned exactly what MemModel's formula (with the as-built variant constants) gives;
     Inventory  the measured peak is what the allocation inventory predicts, within Slack KiB;
     and, when CheckProperty (the property-level reading of C17): Sound  est >= peak ; Tight  est <= C * peak + K. *)
EXTENDS MemModel, IOUtils, Integers
CONSTANTS CheckProperty, Slack
Rec == ndJsonDeserialize(IOEnv.TRACE)
VARIABLE l
tvars == <<p, l>>
Ev == Rec[l]
Is(op) == l <= Len(Rec) /\ Ev.op = op
Pt == [kind |-> Ev.kind, dict |-> Ev.dict, mode |-> Ev.mode, mf |-> Ev.mf, lclp |-> Ev.lclp]
\* the grid variable plays no role here: every event carries its own parameters
TInit == p = [kind |-> "lzma2", dict |-> 4096, mode |-> "fast", mf |-> "hc4", lclp |-> 0] /\ l = 1 /\ TLCSet(1, 1)
Near(x, y) == x + Slack >= y /\ y + Slack >= x
Prop(est, peak) == CheckProperty => (est >= peak /\ est <= C * peak + K)

EncEv == /\ Is("Enc")
         /\ Ev.est = EncEstimate(Pt)
         /\ Near(Ev.peak, AllocKiB(Pt))
         /\ Prop(Ev.est, Ev.peak)
DecEv == /\ Is("Dec")
         /\ IF Ev.kind = "lzma"
              THEN Ev.est = DecLzmaEstimate(Ev.dict, Ev.lclp) /\ Near(Ev.peak, DecLzmaAllocKiB(Ev.dict, Ev.lclp))
              ELSE Ev.est = DecLzma2Estimate(Ev.dict) /\ Near(Ev.peak, DecLzma2AllocKiB(Ev.dict, Ev.lclp))
         /\ Prop(Ev.est, Ev.peak)
EstEv == /\ Is("Est")
         /\ Ev.est = EncEstimate(Pt)
         /\ Ev.dlz = DecLzmaEstimate(Ev.dict, Ev.lclp)
         /\ Ev.dlz2 = DecLzma2Estimate(Ev.dict)
TNext == l' = l + 1 /\ UNCHANGED p /\ (EncEv \/ DecEv \/ EstEv)
TSpec == TInit /\ [][TNext]_tvars
Track == (IF l > TLCGet(1) THEN TLCSet(1, l) ELSE TRUE)
Accepted ==
  /\ PrintT(<<"TRACE-REACHED", TLCGet(1) - 1, "OF", Len(Rec)>>)
  /\ IF TLCGet(1) = Len(Rec) + 1 THEN TRUE
     ELSE Print(<<"REJECTED after event", TLCGet(1) - 1, "next", Rec[TLCGet(1)]>>, FALSE)
=============================================================================
