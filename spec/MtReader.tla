------------------------------ MODULE MtReader ------------------------------
(* LZMA2ReaderMT (src/lzma2_reader_mt.rs) and LZIPReaderMT (src/lzip/reader_mt.rs) with the
   WorkStealingQueue (src/work_queue.rs), one action per operation of the deterministic
   runtime (src/verif_rt.rs): every action below is exactly one granted runtime operation
   (Lock, Unlock, CvWait, CvWake, NotifyOne, NotifyAll, ALoad, AStore, AAdd, Send, Recv,
   TryRecv, Spawn, DropSender, DropReceiver, Exit) of the thread that owns it, except the
   actions marked "silent", which are code paths between two runtime operations that the
   trace specification composes without consuming an event.

   Runtime objects, in creation order:
     mutex 0 = queue (Q), mutex 1 = error store (ES); condvar 0 (CV);
     atomic 0 = closed, 1 = shutdown, 2 = active_workers; channel 0 = results (CH).

   Variant constants describe the code as built:
     CloseLock   close() holds the queue mutex while it stores `closed`
     WakeOnError a failing worker sends a wake-up message after storing its error
     EofIsError  end of input instead of the 0x00 terminator is an error (LZMA2 only)
     PanicGuard  a worker that panics reports it through a drop guard (error path without the `active` decrement)
   With all four TRUE the properties below hold; each FALSE re-creates a defect of the pinned
   tree (lost wake-up / coordinator hang on worker error / hang on empty or unterminated input). *)
EXTENDS Naturals, Sequences, FiniteSets, TLC

CONSTANTS Kind,          \* "lzma2" | "lzip"
          MaxWorkers,
          Chunks,        \* lzma2: sequence over {"I","D","X"}: independent / dependent chunk / source failure
                         \* lzip : sequence of "M" (one per member found by the scan)
          Terminated,    \* lzma2: a 0x00 control byte follows the chunks (ignored for lzip)
          BadUnits,      \* unit sequence numbers whose decode fails in the worker (error returned)
          PanicUnits,    \* unit sequence numbers at which the worker panics (fail point)
          EmptyUnits,    \* unit sequence numbers that decode to zero bytes (empty LZIP members)
          DropAfter,     \* 99: drop only after end / error; k: caller drops after k chunks were returned
          CallsAfterErr, \* the caller calls read() this many more times after the first error before dropping
          CloseLock, WakeOnError, EofIsError, PanicGuard

Workers == 1..MaxWorkers
NoneV == 99
CO == 100             \* coordinator's id as lock owner

VARIABLES Q,    \* [items, owner, waiting, notified, closed]
          CH,   \* [msgs, senders, rxAlive]
          SH,   \* [esOwner, err, shutdown, active]
          C,    \* coordinator / caller
          W     \* worker -> [pc, item]
vars == <<Q, CH, SH, C, W>>

Q0 == [items |-> <<>>, owner |-> 0, waiting |-> {}, notified |-> {}, closed |-> FALSE]
CH0 == [msgs |-> <<>>, senders |-> 1, rxAlive |-> TRUE]
SH0 == [esOwner |-> 0, err |-> "none", shutdown |-> FALSE, active |-> 0]
C0 == [pc |-> "new", state |-> "Reading", nextDisp |-> 0, nextRet |-> 0, lastSeq |-> NoneV,
       ooo |-> {}, inPos |-> 0, curLen |-> 0, spawned |-> 0, tmp |-> 0,
       delivered |-> <<>>, result |-> "none", returned |-> 0, errCalls |-> 0, failed |-> FALSE]
W0 == [w \in Workers |-> [pc |-> "unborn", item |-> NoneV]]
Init == Q = Q0 /\ CH = CH0 /\ SH = SH0 /\ C = C0 /\ W = W0

\* ------------------------------------------------------------------ units of the input
IndepIdx == {i \in 1..Len(Chunks) : Chunks[i] = "I" \/ (i = 1 /\ Chunks[i] = "D")}
FirstX == IF \E i \in 1..Len(Chunks) : Chunks[i] = "X"
            THEN CHOOSE i \in 1..Len(Chunks) : Chunks[i] = "X" /\ \A j \in 1..(i-1) : Chunks[j] # "X"
            ELSE 0
\* number of complete work units a correct reader hands out
NUnits ==
  IF Kind = "lzip" THEN Len(Chunks)
  ELSE Cardinality(IndepIdx) + (IF Len(Chunks) = 0 /\ Terminated THEN 1 ELSE 0)
SourceFails == Kind = "lzma2" /\ FirstX # 0
\* the unterminated last unit is undecodable: the worker's LZMA2Reader hits EOF on the next control byte
IsBad(u) == u \in BadUnits \/ (Kind = "lzma2" /\ ~Terminated /\ ~EofIsError /\ u = NUnits - 1)
IsPanic(u) == u \in PanicUnits

\* ------------------------------------------------------------------ coordinator helpers
Goto(l) == [C EXCEPT !.pc = l]
Ret(c, r) == [c EXCEPT !.pc = "idle", !.result = r, !.failed = @ \/ (r = "err")]
\* a unit that decodes to zero bytes (an empty member, the lone terminator of an empty LZMA2 stream) makes
\* read() recurse straight back into get_next_uncompressed_chunk
IsEmpty(u) == u \in EmptyUnits \/ (Kind = "lzma2" /\ Len(Chunks) = 0)
Deliver(c, seq) ==
  IF IsEmpty(seq) THEN [c EXCEPT !.nextRet = @ + 1, !.delivered = Append(@, seq), !.pc = "L0"]
  ELSE Ret([c EXCEPT !.nextRet = @ + 1, !.delivered = Append(@, seq), !.returned = @ + 1], "chunk")
GotResult(c, seq, back) ==
  IF seq = c.nextRet THEN Deliver(c, seq)
  ELSE [c EXCEPT !.ooo = @ \cup {seq}, !.pc = back]

SpawnOne ==   \* thread::spawn + result_tx.clone(): one runtime operation (Spawn)
  /\ CH' = [CH EXCEPT !.senders = @ + 1]
  /\ W' = [W EXCEPT ![C.spawned + 1].pc = "top"]

CNew ==   \* LZMA2ReaderMT::new spawns the first worker; LZIPReaderMT::new spawns nothing (silent)
  /\ C.pc = "new"
  /\ IF Kind = "lzma2"
       THEN /\ SpawnOne /\ C' = [C EXCEPT !.pc = "idle", !.spawned = 1]
       ELSE /\ C' = [C EXCEPT !.pc = "idle", !.state = "Dispatching"] /\ UNCHANGED <<CH, W>>
  /\ UNCHANGED <<Q, SH>>

CanCall == /\ C.pc = "idle" /\ (DropAfter = 99 \/ C.returned < DropAfter)
           /\ (C.result \notin {"eof", "err"} \/ (C.result = "err" /\ C.errCalls < CallsAfterErr))

CCall ==    \* silent: read() with an exhausted current chunk enters get_next_uncompressed_chunk
  /\ CanCall /\ C' = [C EXCEPT !.pc = "L0", !.errCalls = IF C.result = "err" THEN @ + 1 ELSE @]
  /\ UNCHANGED <<Q, CH, SH, W>>

CL0Hit ==   \* silent: out_of_order_chunks.remove(next) hit
  /\ C.pc = "L0" /\ C.nextRet \in C.ooo
  /\ C' = Deliver([C EXCEPT !.ooo = @ \ {C.nextRet}], C.nextRet)
  /\ UNCHANGED <<Q, CH, SH, W>>

CL0Lock ==  \* miss: Lock(ES)
  /\ C.pc = "L0" /\ C.nextRet \notin C.ooo /\ SH.esOwner = 0
  /\ SH' = [SH EXCEPT !.esOwner = CO] /\ C' = Goto("L1u")
  /\ UNCHANGED <<Q, CH, W>>

ReadState == IF Kind = "lzma2" THEN "Reading" ELSE "Dispatching"

CL1u ==     \* take(); Unlock(ES); then the match on self.state up to the next runtime operation
  /\ C.pc = "L1u"
  /\ IF SH.err # "none"
       THEN /\ SH' = [SH EXCEPT !.esOwner = 0, !.err = "none"]
            /\ C' = Ret([C EXCEPT !.state = "Error"], "err")
       ELSE /\ SH' = [SH EXCEPT !.esOwner = 0]
            /\ C' = CASE C.state = ReadState  -> Goto("R1")
                      [] C.state = "Draining" -> IF C.lastSeq # NoneV /\ C.nextRet > C.lastSeq
                                                   THEN [C EXCEPT !.state = "Finished", !.pc = "L0"]
                                                   ELSE Goto("RECV")
                      [] C.state = "Finished" -> Goto("retEof")
                      [] C.state = "Error"    -> Goto("E1")
  /\ UNCHANGED <<Q, CH, W>>

CRetEof ==  \* silent
  /\ C.pc = "retEof" /\ C' = Ret(C, "eof") /\ UNCHANGED <<Q, CH, SH, W>>

CE1 ==      \* State::Error arm: Lock(ES)
  /\ C.pc = "E1" /\ SH.esOwner = 0 /\ SH' = [SH EXCEPT !.esOwner = CO] /\ C' = Goto("E2")
  /\ UNCHANGED <<Q, CH, W>>
CE2 ==      \* take; Unlock(ES); return Err
  /\ C.pc = "E2" /\ SH' = [SH EXCEPT !.esOwner = 0, !.err = "none"] /\ C' = Ret(C, "err")
  /\ UNCHANGED <<Q, CH, W>>

CR1 ==      \* TryRecv(CH)
  /\ C.pc = "R1"
  /\ IF CH.msgs # <<>>
       THEN /\ CH' = [CH EXCEPT !.msgs = Tail(@)] /\ C' = GotResult(C, Head(CH.msgs), "L0")
       ELSE /\ UNCHANGED CH
            /\ C' = IF CH.senders = 0 THEN [C EXCEPT !.state = "Draining", !.pc = "L0"] ELSE Goto("R2")
  /\ UNCHANGED <<Q, SH, W>>

CR2 ==      \* work_queue.len(): Lock(Q)
  /\ C.pc = "R2" /\ Q.owner = 0
  /\ Q' = [Q EXCEPT !.owner = CO] /\ C' = [C EXCEPT !.tmp = Len(Q.items), !.pc = "R2u"]
  /\ UNCHANGED <<CH, SH, W>>

NextChunkKind == IF C.inPos < Len(Chunks) THEN Chunks[C.inPos + 1] ELSE (IF Terminated THEN "T" ELSE "EOF")
SatPred(n) == IF n = 0 THEN 0 ELSE n - 1

\* Unlock(Q); then read_and_dispatch_chunk / dispatch_next_member up to its first runtime operation
\* (reads from the source are not runtime operations)
CR2u ==
  /\ C.pc = "R2u" /\ Q' = [Q EXCEPT !.owner = 0]
  /\ C' =
      IF C.tmp >= 4 THEN Goto("RECV")
      ELSE IF Kind = "lzip" THEN
        (IF C.nextDisp < Len(Chunks) THEN Goto("S_load_M")
         ELSE [C EXCEPT !.lastSeq = SatPred(C.nextDisp), !.state = "Draining", !.pc = "L0"])
      ELSE
        CASE NextChunkKind = "D" \/ (NextChunkKind = "I" /\ C.curLen = 0) ->
               [C EXCEPT !.inPos = @ + 1, !.curLen = @ + 1, !.pc = "L0"]
          [] NextChunkKind = "I" /\ C.curLen > 0 -> Goto("S_load_I")
          [] NextChunkKind = "T" -> [C EXCEPT !.inPos = @ + 1, !.curLen = @ + 1, !.pc = "S_load_T"]
          [] NextChunkKind = "X" -> Goto("SE1")
          [] NextChunkKind = "EOF" ->
               IF EofIsError THEN Goto("SE1")
               ELSE IF C.curLen > 0 THEN Goto("S_load_E")
               ELSE [C EXCEPT !.lastSeq = SatPred(C.nextDisp), !.state = "Draining", !.pc = "L0"]
  /\ UNCHANGED <<CH, SH, W>>

\* ---- send_work_unit / dispatch_next_member; variant v says what follows the dispatch
Variants == {"I", "T", "E", "M"}
SendPc(p, v) == p \o "_" \o v

CSLoad(v) ==   \* push(): ALoad(closed) (always FALSE while the reader is alive)
  /\ C.pc = SendPc("S_load", v) /\ C' = Goto(SendPc("S_lock", v)) /\ UNCHANGED <<Q, CH, SH, W>>
CSLock(v) ==   \* Lock(Q) + push_back
  /\ C.pc = SendPc("S_lock", v) /\ Q.owner = 0
  /\ Q' = [Q EXCEPT !.owner = CO, !.items = Append(@, C.nextDisp)] /\ C' = Goto(SendPc("S_unlock", v))
  /\ UNCHANGED <<CH, SH, W>>
CSUnlock(v) ==
  /\ C.pc = SendPc("S_unlock", v) /\ Q' = [Q EXCEPT !.owner = 0] /\ C' = Goto(SendPc("S_notify", v))
  /\ UNCHANGED <<CH, SH, W>>
CSNotifyW(v, w) ==   \* NotifyOne(CV) waking waiter w (0 = nobody waits)
  /\ C.pc = SendPc("S_notify", v)
  /\ IF Q.waiting = {} THEN w = 0 /\ UNCHANGED Q
     ELSE w \in Q.waiting /\ Q' = [Q EXCEPT !.waiting = @ \ {w}, !.notified = @ \cup {w}]
  /\ C' = Goto(SendPc("S_act", v))
  /\ UNCHANGED <<CH, SH, W>>
CSNotify(v) == \E w \in Workers \cup {0} : CSNotifyW(v, w)
CSAct(v) ==    \* ALoad(active)
  /\ C.pc = SendPc("S_act", v) /\ C' = [C EXCEPT !.tmp = SH.active, !.pc = SendPc("S_len", v)]
  /\ UNCHANGED <<Q, CH, SH, W>>
CSLen(v) ==    \* Lock(Q) for len(); evaluates the spawn rule
  /\ C.pc = SendPc("S_len", v) /\ Q.owner = 0 /\ Q' = [Q EXCEPT !.owner = CO]
  /\ C' = [C EXCEPT !.tmp = (IF Len(Q.items) > 0 /\ C.tmp = C.spawned /\ C.spawned < MaxWorkers THEN 1 ELSE 0),
                    !.pc = SendPc("S_lenu", v)]
  /\ UNCHANGED <<CH, SH, W>>
AfterSend(c, v) ==
  CASE v = "I" -> [c EXCEPT !.nextDisp = @ + 1, !.inPos = @ + 1, !.curLen = 1, !.pc = "L0"]
    [] v = "M" -> [c EXCEPT !.nextDisp = @ + 1, !.pc = "L0"]
    [] OTHER   -> [c EXCEPT !.nextDisp = @ + 1, !.curLen = 0, !.lastSeq = c.nextDisp, !.state = "Draining", !.pc = "L0"]
CSLenU(v) ==   \* Unlock(Q); maybe Spawn next
  /\ C.pc = SendPc("S_lenu", v) /\ Q' = [Q EXCEPT !.owner = 0]
  /\ C' = IF C.tmp = 1 THEN Goto(SendPc("S_spawn", v)) ELSE AfterSend(C, v)
  /\ UNCHANGED <<CH, SH, W>>
CSSpawn(v) ==
  /\ C.pc = SendPc("S_spawn", v) /\ SpawnOne /\ C' = AfterSend([C EXCEPT !.spawned = @ + 1], v)
  /\ UNCHANGED <<Q, SH>>

\* ---- source failure / EOF as error: set_error = Lock(ES); store; AStore(shutdown); Unlock(ES)
\*      (the guard is dropped at the end of set_error, after the flag is stored)
CSE1 == /\ C.pc = "SE1" /\ SH.esOwner = 0
        /\ SH' = [SH EXCEPT !.esOwner = CO, !.err = IF @ = "none" THEN "source" ELSE @] /\ C' = Goto("SE2")
        /\ UNCHANGED <<Q, CH, W>>
CSE2 == /\ C.pc = "SE2" /\ SH' = [SH EXCEPT !.shutdown = TRUE] /\ C' = Goto("SE3") /\ UNCHANGED <<Q, CH, W>>
CSE3 == /\ C.pc = "SE3" /\ SH' = [SH EXCEPT !.esOwner = 0] /\ C' = [C EXCEPT !.state = "Error", !.pc = "L0"]
        /\ UNCHANGED <<Q, CH, W>>

CRecv ==    \* Recv(CH), blocking
  /\ C.pc = "RECV" /\ (CH.msgs # <<>> \/ CH.senders = 0)
  /\ IF CH.msgs # <<>>
       THEN /\ CH' = [CH EXCEPT !.msgs = Tail(@)] /\ C' = GotResult(C, Head(CH.msgs), "L0")
       ELSE /\ UNCHANGED CH
            /\ C' = [C EXCEPT !.state = IF @ = ReadState THEN "Draining" ELSE "Finished", !.pc = "L0"]
  /\ UNCHANGED <<Q, SH, W>>

\* ---- Drop: AStore(shutdown); close(): [Lock(Q)] AStore(closed) [Unlock(Q)] NotifyAll(CV);
\*      then the fields: DropReceiver(CH), DropSender(CH)
CanDrop == C.pc = "idle" /\ ~CanCall
           /\ (C.result \in {"eof", "err"} \/ (DropAfter # 99 /\ C.returned >= DropAfter))
CDrop1 == /\ CanDrop /\ SH' = [SH EXCEPT !.shutdown = TRUE]
          /\ C' = Goto(IF CloseLock THEN "X2l" ELSE "X2") /\ UNCHANGED <<Q, CH, W>>
CDrop2l == /\ C.pc = "X2l" /\ Q.owner = 0 /\ Q' = [Q EXCEPT !.owner = CO] /\ C' = Goto("X2")
           /\ UNCHANGED <<CH, SH, W>>
CDrop2 == /\ C.pc = "X2" /\ Q' = [Q EXCEPT !.closed = TRUE]
          /\ C' = Goto(IF CloseLock THEN "X2u" ELSE "X3") /\ UNCHANGED <<CH, SH, W>>
CDrop2u == /\ C.pc = "X2u" /\ Q' = [Q EXCEPT !.owner = 0] /\ C' = Goto("X3") /\ UNCHANGED <<CH, SH, W>>
CDrop3 == /\ C.pc = "X3" /\ Q' = [Q EXCEPT !.notified = @ \cup Q.waiting, !.waiting = {}] /\ C' = Goto("X4")
          /\ UNCHANGED <<CH, SH, W>>
CDrop4 == /\ C.pc = "X4" /\ CH' = [CH EXCEPT !.rxAlive = FALSE] /\ C' = Goto("X5") /\ UNCHANGED <<Q, SH, W>>
CDrop5 == /\ C.pc = "X5" /\ CH' = [CH EXCEPT !.senders = @ - 1] /\ C' = Goto("exiting") /\ UNCHANGED <<Q, SH, W>>
CExit ==  /\ C.pc = "exiting" /\ C' = Goto("gone") /\ UNCHANGED <<Q, CH, SH, W>>   \* Exit of the calling thread

CoordStep ==
  \/ CNew \/ CCall \/ CL0Hit \/ CL0Lock \/ CL1u \/ CRetEof \/ CE1 \/ CE2 \/ CR1 \/ CR2 \/ CR2u \/ CRecv
  \/ CSE1 \/ CSE2 \/ CSE3 \/ CDrop1 \/ CDrop2l \/ CDrop2 \/ CDrop2u \/ CDrop3 \/ CDrop4 \/ CDrop5 \/ CExit
  \/ \E v \in Variants : CSLoad(v) \/ CSLock(v) \/ CSUnlock(v) \/ CSNotify(v) \/ CSAct(v) \/ CSLen(v)
                         \/ CSLenU(v) \/ CSSpawn(v)

\* ------------------------------------------------------------------ workers
WGo(w, l) == [W EXCEPT ![w].pc = l]
PopOrCheck(w) ==   \* with the queue lock held: pop_front or go on to the closed check
  IF Q.items # <<>>
    THEN /\ Q' = [Q EXCEPT !.owner = w, !.items = Tail(@), !.notified = @ \ {w}]
         /\ W' = [W EXCEPT ![w].pc = "gotUnlock", ![w].item = Head(Q.items)]
    ELSE /\ Q' = [Q EXCEPT !.owner = w, !.notified = @ \ {w}] /\ W' = WGo(w, "chk")

WTop(w) ==        \* ALoad(shutdown)
  /\ W[w].pc = "top" /\ W' = WGo(w, IF SH.shutdown THEN "dropTx" ELSE "lock") /\ UNCHANGED <<Q, CH, SH, C>>
WLock(w) ==       \* steal(): Lock(Q)
  /\ W[w].pc = "lock" /\ Q.owner = 0 /\ PopOrCheck(w) /\ UNCHANGED <<CH, SH, C>>
WGotUnlock(w) ==  \* Unlock(Q) with an item
  /\ W[w].pc = "gotUnlock" /\ Q' = [Q EXCEPT !.owner = 0] /\ W' = WGo(w, "inc") /\ UNCHANGED <<CH, SH, C>>
WChk(w) ==        \* ALoad(closed) while holding Q
  /\ W[w].pc = "chk" /\ W' = WGo(w, IF Q.closed THEN "noneUnlock" ELSE "wait") /\ UNCHANGED <<Q, CH, SH, C>>
WNoneUnlock(w) == \* Unlock(Q), steal() returns None
  /\ W[w].pc = "noneUnlock" /\ Q' = [Q EXCEPT !.owner = 0] /\ W' = WGo(w, "dropTx") /\ UNCHANGED <<CH, SH, C>>
WWait(w) ==       \* CvWait: atomically release Q and sleep
  /\ W[w].pc = "wait" /\ Q' = [Q EXCEPT !.owner = 0, !.waiting = @ \cup {w}, !.notified = @ \ {w}]
  /\ W' = WGo(w, "sleep") /\ UNCHANGED <<CH, SH, C>>
WWake(w) ==       \* CvWake: notified and Q free: re-acquire, loop: pop attempt again
  /\ W[w].pc = "sleep" /\ w \in Q.notified /\ Q.owner = 0 /\ PopOrCheck(w) /\ UNCHANGED <<CH, SH, C>>
WInc(w) ==        \* AAdd(active, +1); the decode itself touches no runtime object
  /\ W[w].pc = "inc" /\ SH' = [SH EXCEPT !.active = @ + 1]
  \* a panic unwinds the worker: with the panic guard its Drop runs the error path (without the decrement of
  \* `active`); without it the thread just drops its Sender and is gone
  /\ W' = WGo(w, CASE IsPanic(W[w].item) -> (IF PanicGuard THEN "esLock" ELSE "dropTx")
                    [] IsBad(W[w].item) -> "decErr" [] OTHER -> "send")
  /\ UNCHANGED <<Q, CH, C>>
WSend(w) ==       \* Send(CH)
  /\ W[w].pc = "send"
  /\ IF CH.rxAlive THEN CH' = [CH EXCEPT !.msgs = Append(@, W[w].item)] /\ W' = WGo(w, "decOk")
                   ELSE UNCHANGED CH /\ W' = WGo(w, "decExit")
  /\ UNCHANGED <<Q, SH, C>>
WDec(w) ==        \* AAdd(active, -1)
  /\ W[w].pc \in {"decOk", "decExit", "decErr"} /\ SH' = [SH EXCEPT !.active = @ - 1]
  /\ W' = WGo(w, CASE W[w].pc = "decOk" -> "top" [] W[w].pc = "decExit" -> "dropTx" [] OTHER -> "esLock")
  /\ UNCHANGED <<Q, CH, C>>
WEsLock(w) ==     \* set_error: Lock(ES), store if empty
  /\ W[w].pc = "esLock" /\ SH.esOwner = 0
  /\ SH' = [SH EXCEPT !.esOwner = w, !.err = IF @ = "none" THEN "worker" ELSE @]
  /\ W' = WGo(w, "shut") /\ UNCHANGED <<Q, CH, C>>
WShut(w) ==       \* AStore(shutdown), still holding ES
  /\ W[w].pc = "shut" /\ SH' = [SH EXCEPT !.shutdown = TRUE] /\ W' = WGo(w, "esUnlock") /\ UNCHANGED <<Q, CH, C>>
WEsUnlock(w) ==   \* Unlock(ES) at the end of set_error
  /\ W[w].pc = "esUnlock" /\ SH' = [SH EXCEPT !.esOwner = 0]
  /\ W' = WGo(w, IF WakeOnError THEN "wakeSend" ELSE "dropTx") /\ UNCHANGED <<Q, CH, C>>
WWakeSend(w) ==   \* repaired: Send(CH) of a marker (sequence number u64::MAX, never awaited) so that a
                  \* coordinator blocked in recv() parks it and re-checks the error store
  /\ W[w].pc = "wakeSend"
  /\ IF CH.rxAlive THEN CH' = [CH EXCEPT !.msgs = Append(@, NoneV)] ELSE UNCHANGED CH
  /\ W' = WGo(w, "dropTx") /\ UNCHANGED <<Q, SH, C>>
WDropTx(w) ==     \* DropSender(CH): the thread's closure is dropped
  /\ W[w].pc = "dropTx" /\ CH' = [CH EXCEPT !.senders = @ - 1] /\ W' = WGo(w, "exiting") /\ UNCHANGED <<Q, SH, C>>
WExit(w) ==       \* Exit
  /\ W[w].pc = "exiting" /\ W' = WGo(w, "exit") /\ UNCHANGED <<Q, CH, SH, C>>

WorkerStep(w) == WTop(w) \/ WLock(w) \/ WGotUnlock(w) \/ WChk(w) \/ WNoneUnlock(w) \/ WWait(w) \/ WWake(w)
                 \/ WInc(w) \/ WSend(w) \/ WDec(w) \/ WEsLock(w) \/ WEsUnlock(w) \/ WShut(w) \/ WWakeSend(w)
                 \/ WDropTx(w) \/ WExit(w)

WorkersDone == \A w \in Workers : W[w].pc \in {"unborn", "exit"}
\* the only legitimate terminal state: caller gone, every worker exited (stutters, so that TLC's deadlock check
\* flags exactly the states in which some thread is stuck)
Done == C.pc = "gone" /\ WorkersDone /\ UNCHANGED vars
Next == CoordStep \/ (\E w \in Workers : WorkerStep(w)) \/ Done
\* Safety must not depend on the absence of spurious wake-ups (liveness is checked without them; the runtime
\* never produces one, so this action is model-only)
WSpurious(w) ==
  /\ W[w].pc = "sleep" /\ w \notin Q.notified /\ Q.owner = 0
  /\ IF Q.items # <<>>
       THEN /\ Q' = [Q EXCEPT !.owner = w, !.items = Tail(@), !.waiting = @ \ {w}]
            /\ W' = [W EXCEPT ![w].pc = "gotUnlock", ![w].item = Head(Q.items)]
       ELSE /\ Q' = [Q EXCEPT !.owner = w, !.waiting = @ \ {w}] /\ W' = WGo(w, "chk")
  /\ UNCHANGED <<CH, SH, C>>
SpecSpur == Init /\ [][Next \/ \E w \in Workers : WSpurious(w)]_vars
Spec == Init /\ [][Next]_vars /\ WF_vars(CoordStep) /\ \A w \in Workers : WF_vars(WorkerStep(w))
SpecSafe == Init /\ [][Next]_vars

\* ------------------------------------------------------------------ properties
TypeOK == /\ Q.owner \in Workers \cup {0, CO} /\ SH.esOwner \in Workers \cup {0, CO}
          /\ SH.active \in 0..MaxWorkers /\ C.spawned \in 0..MaxWorkers
          /\ Len(Q.items) <= 5
\* C08/C13: results are handed out in sequence order, each exactly once, whichever worker finishes first.
InOrder == \A i \in 1..Len(C.delivered) : C.delivered[i] = i - 1
\* C09: end of stream is reported only if every unit was delivered, no worker failed, the source
\* did not fail, and (LZMA2) the terminator was seen
NoFalseSuccess ==
  C.result = "eof" => /\ Len(C.delivered) = NUnits
                      /\ \A u \in 0..(NUnits - 1) : ~IsBad(u) /\ ~IsPanic(u)
                      /\ ~SourceFails
                      /\ (Kind = "lzma2" => Terminated)
\* C09: a stream that has failed stays failed: no later call reports data or end of stream
StickyError == (C.failed /\ C.pc = "idle") => C.result = "err"
\* C10: never more workers than the limit
WorkerBound == C.spawned <= MaxWorkers /\ SH.active <= C.spawned
               /\ Cardinality({w \in Workers : W[w].pc \notin {"unborn", "exit"}}) <= MaxWorkers
\* C09/C10 exact: a state without successor has the caller gone and every worker exited
NoDeadlock == ENABLED Next      \* (TLC's deadlock check decides the same thing without evaluating ENABLED)
\* push() never observes a closed queue while the reader is alive
PushSeesOpen == (\E v \in Variants : C.pc = SendPc("S_lock", v)) => ~Q.closed
\* liveness (under weak fairness of every thread, no spurious wake-ups)
CallsReturn == (C.pc = "L0") ~> (C.pc = "idle")
WorkersReleased == (C.pc = "gone") ~> WorkersDone
Terminates == <>(C.pc = "gone" /\ WorkersDone)
=============================================================================
