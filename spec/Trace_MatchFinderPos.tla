------------------------ MODULE Trace_MatchFinderPos ------------------------
(* Validation of the renormalisation events of real encodes (hook H3: src/lz/hc4.rs, bt4.rs, hash234.rs,
   src/verif_win.rs norm_check) against the definitions of MatchFinderPos at the REAL word width
   (MaxPosR = 2^31 - 1, written out because TLC integers are 32 bit):
     Renorm{mf, lz, off, lz2, cyc}           lz = MaxPosR, off = MaxPosR - cyc, lz2 = cyc
     NormTab{tab, n, off, minb, maxb, mina, maxa, mism}
     NormSmp{tab, i, off, b, a}              a = Norm(b, off) for the as-built NormKind
   Intended (property-level) reading, evaluated as invariants: after a renormalisation every entry is >= 0 and
   below the new lz_pos, i.e. a = max(b - off, 0). *)
EXTENDS Integers, Sequences, TLC, Json, IOUtils
CONSTANTS NormKind
MaxPosR == 2147483647
MinPosR == -MaxPosR - 1
Rec == ndJsonDeserialize(IOEnv.TRACE)
VARIABLES l, off, cyc, bad
tvars == <<l, off, cyc, bad>>
Ev == Rec[l]
Is(e) == l <= Len(Rec) /\ Ev.ev = e

\* overflow-free forms of MatchFinderPos!Norm for 32-bit evaluation (off > 0)
NormMax0(p, o) == IF p > o THEN p - o ELSE 0
NormSat(p, o) == IF p < MinPosR + o THEN MinPosR ELSE p - o
Norm(p, o) == IF NormKind = "max0" THEN NormMax0(p, o) ELSE NormSat(p, o)

TInit == l = 1 /\ off = 0 /\ cyc = 0 /\ bad = "none" /\ TLCSet(1, 1)
TReset == Is("Reset") /\ off' = 0 /\ cyc' = 0 /\ UNCHANGED bad
\* tables are normalised before the Renorm event of the match finder is logged
TTab == Is("NormTab") /\ Ev.off > 0 /\ off' = Ev.off /\ UNCHANGED cyc
        /\ bad' = (IF bad = "none" /\ (Ev.mina < 0 \/ Ev.mism > 0) THEN "entry_not_max0" ELSE bad)
TSmp == Is("NormSmp") /\ Ev.off = off
        /\ (Ev.a = Norm(Ev.b, Ev.off) \/ Ev.a = NormMax0(Ev.b, Ev.off))    \* SIMD middle part: always max0
        /\ bad' = (IF bad = "none" /\ Ev.a # NormMax0(Ev.b, Ev.off) THEN "entry_not_max0" ELSE bad)
        /\ UNCHANGED <<off, cyc>>
TRenorm == Is("Renorm") /\ Ev.lz = MaxPosR /\ Ev.off = MaxPosR - Ev.cyc /\ Ev.lz2 = Ev.cyc /\ Ev.off = off
           /\ cyc' = Ev.cyc /\ UNCHANGED <<off, bad>>
TNext == l' = l + 1 /\ (TReset \/ TTab \/ TSmp \/ TRenorm)
TSpec == TInit /\ [][TNext]_tvars
IntendedNorm == bad = "none"
Track == (IF l > TLCGet(1) THEN TLCSet(1, l) ELSE TRUE)
Accepted ==
  /\ PrintT(<<"TRACE-REACHED", TLCGet(1) - 1, "OF", Len(Rec)>>)
  /\ IF TLCGet(1) = Len(Rec) + 1 THEN TRUE
     ELSE Print(<<"REJECTED after event", TLCGet(1) - 1, "next", Rec[TLCGet(1)]>>, FALSE)
=============================================================================
