--------------------------- MODULE Trace_HostileFields ---------------------------
(* TLC judges what the real decoders did on the forged cases of HostileFields.tla. One event per executed case:
     {"fam","f1","f2","f3","f4","f5", "obs": "ok"|"err"|"panic"|"abort"|"spin"|"unbounded"|"timeout",
      "mt": read by a multi-threaded reader, "alloc_kib": peak heap taken during the case, "in_kib", "out_kib": input / output size (rounded up)}
   For each event three verdicts are printed as JSON (nothing stops at the first failure; tools/checks/c06.py collects):
     total   the decoder returned Ok or Err (property level)
     alloc   the peak allocation is within AllocKiB (property level)
     pred    the outcome is one the reader half expects (implementation level: FALSE = drift) *)
EXTENDS HostileFields, IOUtils

Rec == ndJsonDeserialize(IOEnv.TRACE)
VARIABLE l
Ev == Rec[l]
TInit == l = 1 /\ case = [fam |-> "none"] /\ judged = FALSE /\ TLCSet(1, 1)
TNext == l <= Len(Rec) /\ l' = l + 1 /\ UNCHANGED <<case, judged>>
TSpec == TInit /\ [][TNext]_<<l, case, judged>>

Verdict(e) ==
  LET c == [fam |-> e.fam, f1 |-> e.f1, f2 |-> e.f2, f3 |-> e.f3, f4 |-> e.f4, f5 |-> e.f5]
      bound == AllocKiB(c, e.mt, e.in_kib, e.out_kib)
  IN [l |-> l, total |-> e.obs \in {"ok", "err"}, alloc |-> e.alloc_kib <= bound, bound |-> bound,
      pred |-> e.obs \in Expected(c), expected |-> Expected(c)]
Judge == l <= Len(Rec) => PrintT(ToJson(Verdict(Ev)))

Track == (IF l > TLCGet(1) THEN TLCSet(1, l) ELSE TRUE)
Accepted ==
  /\ PrintT(<<"TRACE-REACHED", TLCGet(1) - 1, "OF", Len(Rec)>>)
  /\ IF TLCGet(1) = Len(Rec) + 1 THEN TRUE
     ELSE Print(<<"REJECTED after event", TLCGet(1) - 1, "next", Rec[TLCGet(1)]>>, FALSE)
=============================================================================
