--------------------------- MODULE Trace_LzipScan ---------------------------
(* Validates the seeks the real LZIPReaderMT::new issues on its source against LzipScan (real constants):
   events {"ev":"Reset","len":L} (new file), {"ev":"Trailer","pos":p} (seek to the trailer), {"ev":"Header","pos":s}
   (seek to the member start), {"ev":"Done","ok":0|1,"n":members}. *)
EXTENDS LzipScan, Json, IOUtils, Integers
Rec == ndJsonDeserialize(IOEnv.TRACE)
VARIABLE l
tvars == <<vars, l>>
Ev == Rec[l]
IsEv(e) == l <= Len(Rec) /\ Ev.ev = e
TInit == l = 1 /\ TLCSet(1, 1) /\ pos = 0 /\ ms = 0 /\ members = <<>> /\ pc = "idle"

TReset == /\ IsEv("Reset") /\ pos' = Ev.len /\ ms' = 0 /\ members' = <<>>
          /\ pc' = (IF Ev.len < MinFile THEN "err" ELSE "loop")
\* the size field is not observable directly: it is what the next seek implies, or an invalid one if the scan stops
TTrailer == /\ IsEv("Trailer") /\ Ev.pos = pos - Trailer
            /\ IF l < Len(Rec) /\ Rec[l + 1].ev = "Header"
                 THEN ReadTrailer(IF Rec[l + 1].pos <= pos THEN pos - Rec[l + 1].pos ELSE pos + 1)
                 ELSE \E m \in {0, pos + 1} : ReadTrailer(m)
THeader == /\ IsEv("Header") /\ Ev.pos = pos - ms
           /\ IF l < Len(Rec) /\ Rec[l + 1].ev = "Done" /\ Rec[l + 1].ok = 0
                THEN \E b \in BOOLEAN : ReadHeader(b)
                ELSE ReadHeader(TRUE)
TDone == /\ IsEv("Done") /\ UNCHANGED vars
         /\ pc = (IF Ev.ok = 1 THEN "ok" ELSE "err") /\ (Ev.ok = 1 => Len(members) = Ev.n)
TNext == \/ (l' = l + 1 /\ (TReset \/ TTrailer \/ THeader \/ TDone))
         \/ (l' = l /\ (BadSize \/ Break))
TSpec == TInit /\ [][TNext]_tvars
Track == (IF l > TLCGet(1) THEN TLCSet(1, l) ELSE TRUE)
Accepted ==
  /\ PrintT(<<"TRACE-REACHED", TLCGet(1) - 1, "OF", Len(Rec)>>)
  /\ IF TLCGet(1) = Len(Rec) + 1 THEN TRUE
     ELSE Print(<<"REJECTED after event", TLCGet(1) - 1, "next", Rec[TLCGet(1)]>>, FALSE)
=============================================================================
