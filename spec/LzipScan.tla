------------------------------ MODULE LzipScan ------------------------------
(* Backward member scan of LZIPReaderMT::new (src/lzip/reader_mt.rs scan_members): the file is walked from its
   end, trailer by trailer; every accepted trailer must move the position strictly towards the start of the file,
   otherwise the constructor never returns. The content of the size field of the trailer ending at `pos` and
   whether the bytes at the computed member start are the magic are environment choices (they are arbitrary in a
   damaged file), taken as action parameters so that the trace specification binds them from observed seeks. *)
EXTENDS Naturals, Sequences, TLC

CONSTANTS FileLen,          \* length of the file
          Trailer,          \* trailer size (20; scaled in the model-checking configuration)
          MinFile,          \* HEADER_SIZE + TRAILER_SIZE
          ZeroSizeRejected  \* as built: a size field of 0 is rejected

VARIABLES pos, ms, members, pc
vars == <<pos, ms, members, pc>>

Init == pos = FileLen /\ ms = 0 /\ members = <<>> /\ pc = (IF FileLen < MinFile THEN "err" ELSE "loop")

\* while current_pos > 0 { if current_pos < TRAILER_SIZE { break } ...
Break == /\ pc = "loop" /\ (pos = 0 \/ pos < Trailer)
         /\ pc' = (IF members = <<>> THEN "err" ELSE "ok") /\ UNCHANGED <<pos, ms, members>>
\* seek to pos - TRAILER_SIZE, read the trailer: member_size = m
ReadTrailer(m) == /\ pc = "loop" /\ pos > 0 /\ pos >= Trailer
                  /\ ms' = m /\ pc' = "size" /\ UNCHANGED <<pos, members>>
\* if member_size == 0 || member_size > current_pos { return Err }
BadSize == /\ pc = "size" /\ ((ZeroSizeRejected /\ ms = 0) \/ ms > pos)
           /\ pc' = "err" /\ UNCHANGED <<pos, ms, members>>
\* seek to member_start, read 4 bytes, compare with the magic
ReadHeader(magicOk) ==
  /\ pc = "size" /\ ~((ZeroSizeRejected /\ ms = 0) \/ ms > pos)
  /\ IF magicOk THEN /\ members' = Append(members, pos - ms) /\ pos' = pos - ms /\ pc' = "loop" /\ UNCHANGED ms
                ELSE /\ pc' = "err" /\ UNCHANGED <<pos, ms, members>>
Stop == pc \in {"ok", "err"} /\ UNCHANGED vars

Next == Break \/ (\E m \in 0..(FileLen + 1) : ReadTrailer(m)) \/ BadSize \/ (\E b \in BOOLEAN : ReadHeader(b)) \/ Stop
Spec == Init /\ [][Next]_vars /\ WF_vars(Next)

TypeOK == pos \in 0..FileLen /\ Len(members) <= FileLen
\* C09 (every call returns): each accepted member moves the position strictly backwards ...
Progress == [][pc = "size" /\ pc' = "loop" => pos' < pos]_vars
\* ... hence the scan ends
Terminates == <>(pc \in {"ok", "err"})
\* C12/C18: accepted member starts are strictly decreasing and inside the file (forward order after the reverse)
Ordered == \A i \in 1..Len(members) : members[i] < (IF i = 1 THEN FileLen ELSE members[i - 1])
=============================================================================
