---------------------------- MODULE Lzma2Chunks ----------------------------
(* LZMA2 chunk-header protocol: the flags of LZMA2Writer (src/enc/lzma2_writer.rs: dict_reset_needed,
   state_reset_needed, props_needed, force_independent_chunk; write_lzma, write_uncompressed,
   start_independent_chunk) against the flags of LZMA2Reader (src/lzma2_reader.rs: need_dict_reset,
   need_props; decode_chunk_header) and the unit-cutting rule of LZMA2ReaderMT
   (src/lzma2_reader_mt.rs read_and_dispatch_chunk: a unit starts at control >= 0xE0 or = 0x01).

   A chunk is [kind |-> "lzma" | "unc", level |-> 0..3]: for LZMA chunks the reset level of the control byte
   (0 nothing, 1 state, 2 state + props, 3 state + props + dictionary); for uncompressed chunks 3 = 0x01
   (dictionary reset), 0 = 0x02. Whether data is compressible is the environment's choice.
   Ground truth of the encoder: encOrigin = first chunk whose data the encoder window covers,
   encStateFresh = adaptive state reset since the last LZMA chunk.

   Variant constant:
     UncClearsForce  FALSE: write_uncompressed leaves force_independent_chunk set, so the LZMA chunk after an
                            independent unit that began with an uncompressed chunk resets the dictionary a
                            second time while the encoder still references the uncompressed data (D2) -> TRUE *)
EXTENDS Integers, Sequences, FiniteSets, TLC

CONSTANTS MaxChunks,      \* chunks per stream, at most
          ChunkSizeSet,   \* LZMA2Options::chunk_size is Some (independent units can start)
          Preset,         \* "none" | "nonempty" (preset dictionary)
          UncClearsForce

VARIABLES dictReset, stateReset, propsNeeded, force,                 \* writer flags
          encWinFresh, encOrigin, encStateFresh,                      \* encoder ground truth
          rNeedDict, rNeedProps, decOrigin, decInSync, rejected,      \* reader
          out,                                                        \* chunks emitted: [kind, level, props, si = first chunk of a later independent unit]
          units, indepStarts,                                         \* MT cutter: units cut / independent units begun
          finished

vars == <<dictReset, stateReset, propsNeeded, force, encWinFresh, encOrigin, encStateFresh,
          rNeedDict, rNeedProps, decOrigin, decInSync, rejected, out, units, indepStarts, finished>>

n == Len(out)
HasPreset == Preset = "nonempty"

Init ==
  /\ dictReset = ~HasPreset /\ stateReset = TRUE /\ propsNeeded = TRUE /\ force = FALSE
  /\ encWinFresh = TRUE /\ encOrigin = 0 /\ encStateFresh = TRUE
  /\ rNeedDict = ~HasPreset /\ rNeedProps = TRUE
  /\ decOrigin = (IF HasPreset THEN 0 ELSE 99) /\ decInSync = TRUE /\ rejected = FALSE
  /\ out = <<>> /\ units = 0 /\ indepStarts = 1 /\ finished = FALSE

\* origin of a fresh encoder window: the next chunk, or 0 when a preset dictionary precedes chunk 1
NewOrigin == IF n = 0 /\ HasPreset THEN 0 ELSE n + 1
EncOriginNext == IF encWinFresh THEN NewOrigin ELSE encOrigin

\* decode_chunk_header for an LZMA chunk of reset level `level`
ReadLzma(level) ==
  LET resetsDict == level = 3 IN
  /\ rejected' = (rejected \/ (~resetsDict /\ rNeedDict) \/ (level < 2 /\ rNeedProps))
  /\ rNeedDict' = IF resetsDict THEN FALSE ELSE rNeedDict
  /\ rNeedProps' = IF level >= 2 THEN FALSE ELSE rNeedProps
  /\ decOrigin' = IF resetsDict THEN n + 1 ELSE decOrigin
  /\ decInSync' = IF level >= 1 THEN encStateFresh ELSE (decInSync /\ ~encStateFresh)
  /\ units' = IF resetsDict THEN units + 1 ELSE units

\* ... for an uncompressed chunk (0x01 resets the dictionary and demands new properties)
ReadUnc(resetsDict) ==
  /\ rejected' = (rejected \/ (~resetsDict /\ rNeedDict))
  /\ rNeedDict' = IF resetsDict THEN FALSE ELSE rNeedDict
  /\ rNeedProps' = IF resetsDict THEN TRUE ELSE rNeedProps
  /\ decOrigin' = IF resetsDict THEN n + 1 ELSE decOrigin
  /\ UNCHANGED decInSync
  /\ units' = IF resetsDict THEN units + 1 ELSE units

\* write_lzma: the control level as coded
LzmaLevel == IF propsNeeded \/ force THEN (IF dictReset \/ force THEN 3 ELSE 2)
             ELSE IF stateReset THEN 1 ELSE 0

EmitLzma ==
  /\ ~finished /\ n < MaxChunks
  /\ ReadLzma(LzmaLevel)
  /\ out' = Append(out, [kind |-> "lzma", level |-> LzmaLevel, props |-> propsNeeded, si |-> (encWinFresh /\ n > 0)])
  /\ encOrigin' = EncOriginNext /\ encWinFresh' = FALSE /\ encStateFresh' = FALSE
  /\ propsNeeded' = FALSE /\ stateReset' = FALSE /\ dictReset' = FALSE /\ force' = FALSE
  /\ UNCHANGED <<indepStarts, finished>>

\* write_uncompressed (one piece of at most 64 KiB; further pieces are further EmitUnc steps with dictReset clear)
EmitUnc ==
  /\ ~finished /\ n < MaxChunks
  /\ ReadUnc(dictReset)
  /\ out' = Append(out, [kind |-> "unc", level |-> IF dictReset THEN 3 ELSE 0, props |-> FALSE, si |-> (encWinFresh /\ n > 0)])
  /\ encOrigin' = EncOriginNext /\ encWinFresh' = FALSE /\ encStateFresh' = TRUE     \* lzma.reset()
  /\ dictReset' = FALSE /\ stateReset' = TRUE
  /\ force' = IF UncClearsForce THEN FALSE ELSE force
  /\ UNCHANGED <<propsNeeded, indepStarts, finished>>

\* start_independent_chunk (taken by write() when the bytes emitted since the last start reach chunk_size)
StartIndependent ==
  /\ ChunkSizeSet /\ ~finished /\ n > 0 /\ n < MaxChunks /\ ~encWinFresh
  /\ force' = TRUE /\ dictReset' = TRUE /\ stateReset' = TRUE /\ propsNeeded' = TRUE
  /\ encWinFresh' = TRUE /\ encStateFresh' = TRUE /\ indepStarts' = indepStarts + 1
  /\ UNCHANGED <<encOrigin, rNeedDict, rNeedProps, decOrigin, decInSync, rejected, out, units, finished>>

Finish == /\ ~finished /\ finished' = TRUE
          /\ UNCHANGED <<dictReset, stateReset, propsNeeded, force, encWinFresh, encOrigin, encStateFresh,
                         rNeedDict, rNeedProps, decOrigin, decInSync, rejected, out, units, indepStarts>>

Next == EmitLzma \/ EmitUnc \/ StartIndependent \/ Finish
Spec == Init /\ [][Next]_vars

\* ---------------------------------------------------------------------------------------- validity of a chunk sequence
\* (LZMA2 as specified for the xz format and implemented by the reference decoder) over any sequence of
\* [kind, level, props]: also evaluated on the chunks the strict walker finds in real streams
RECURSIVE ValidFrom(_, _, _, _)
ValidFrom(s, i, needDict, needProps) ==
  IF i > Len(s) THEN TRUE
  ELSE LET c == s[i] IN
       IF c.kind = "unc"
         THEN (c.level = 3 \/ ~needDict) /\ ValidFrom(s, i + 1, FALSE, IF c.level = 3 THEN TRUE ELSE needProps)
         ELSE /\ (c.level = 3 \/ ~needDict)
              /\ (c.level >= 2 \/ ~needProps)
              /\ ValidFrom(s, i + 1, FALSE, FALSE)
ValidF(s, preset) == ValidFrom(s, 1, ~preset, TRUE)
ResetCount(s) == Cardinality({i \in 1..Len(s) : s[i].level = 3})

\* ---------------------------------------------------------------------------------------- properties
TypeOK == /\ finished \in BOOLEAN /\ rejected \in BOOLEAN /\ units \in 0..MaxChunks
\* the reader never rejects what the writer emits, and what is emitted is a valid LZMA2 stream (C03)
ReaderAccepts == ~rejected
Valid == ValidF(out, HasPreset)
\* decoder dictionary origin = encoder window origin at every chunk (C01 / C03: decodable)
DictSync == (n > 0 /\ ~encWinFresh) => decOrigin = encOrigin
\* after every LZMA chunk decoder and encoder adaptive state are the same generation
StateSync == (n > 0 /\ out[n].kind = "lzma") => decInSync
\* C08 / C18: the MT reader cuts exactly at the starts of independent units
CountUnits == (n > 0 /\ ~encWinFresh /\ ~HasPreset) => units = indepStarts
=============================================================================
