--------------------------- MODULE Trace_Corruption ---------------------------
(* TLC judges the outcomes the real readers produced on the concretised cases of Corruption.tla. One event per
   executed case (all of one shape: Format / NUnits / NStreams are the constants of the run):
     {"t": alteration type, "i": index, "c": class, "res": "ok" | "err", "out": [unit ids delivered]}
   (a unit id of 99 stands for bytes that are not a concatenation of whole units). For each event the altered
   record sequence is rebuilt with Apply and two verdicts are printed as JSON:
     tol   the observed outcome is one property C04 tolerates (property level: FALSE = violation)
     pred  the observed outcome is the one the reader half as built predicts (implementation level: FALSE = drift)
   Nothing stops at the first failing case: the verdicts are collected by tools/checks/c04.py. *)
EXTENDS Corruption, IOUtils

Rec == ndJsonDeserialize(IOEnv.TRACE)
VARIABLE l
Ev == Rec[l]
TInit == l = 1 /\ alt = [t |-> "none", i |-> 0, c |-> "none"] /\ file = <<>> /\ outcome = Pending /\ TLCSet(1, 1)
TNext == l <= Len(Rec) /\ l' = l + 1 /\ UNCHANGED <<alt, file, outcome>>
TSpec == TInit /\ [][TNext]_<<l, alt, file, outcome>>

Observed(e) == [res |-> e.res, out |-> e.out]
Verdict(e) ==
  LET a == [t |-> e.t, i |-> e.i, c |-> e.c]
      f == Apply(a)
      o == Observed(e)
      p == Outcome(f)
  IN [l |-> l, tol |-> Tolerated(f, o), pred |-> (p.res = o.res /\ (o.res = "ok" => p.out = o.out)),
      pres |-> p.res, pout |-> p.out]
Judge == l <= Len(Rec) => PrintT(ToJson(Verdict(Ev)))

Track == (IF l > TLCGet(1) THEN TLCSet(1, l) ELSE TRUE)
Accepted ==
  /\ PrintT(<<"TRACE-REACHED", TLCGet(1) - 1, "OF", Len(Rec)>>)
  /\ IF TLCGet(1) = Len(Rec) + 1 THEN TRUE
     ELSE Print(<<"REJECTED after event", TLCGet(1) - 1, "next", Rec[TLCGet(1)]>>, FALSE)
=============================================================================
