------------------------------ MODULE MemModel ------------------------------
(* Memory estimators against the allocation inventory (property C17).

   A grid point is [kind, dict, mode, mf, lclp]: kind "lzma2" | "lzma" (encoder with / without the 64 KiB
   LZMA2 range-coder buffer), dict in bytes (<= 768 MiB, fits TLC's 32-bit integers), mode "fast" | "normal",
   mf "hc4" | "bt4", lclp = lc + lp.

   Inventory (what the encoder really allocates, read off src/lz/lz_encoder.rs, hash234.rs, hc4.rs, bt4.rs,
   encoder_normal.rs, encoder.rs, range_enc.rs and confirmed item by item by the counting allocator):
     window   extra_before + dict + extra_after + 273 + min(dict/2 + 256 KiB, 512 MiB)      get_buf_size
     hash2    1024 * 4          hash3  65536 * 4          hash4  H4(dict) * 4                Hash234::new
     chain    (dict + 1) * 4 (hc4)      tree  2 * (dict + 1) * 4 (bt4)       rounded up to 64 (aligned memory)
     opts     4096 * 48 (normal mode only; the estimator assumes 64 bytes per entry)
     literal  2^(lc+lp) * 1536          rcbuf  65536 (LZMA2 only)
   Items are summed in KiB, each rounded up (table sizes in bytes exceed 32 bits for large dictionaries).

   Estimators exactly as coded, in u32 arithmetic (KiB is the documented unit of every one of them):
     encoder  70 + 80 + window_term + hash_term + mf_term + 10 (+ 256 in normal mode)
   Variant constants for the two places where the code as found deviates from the intended formula:
     UnitsFixed     FALSE: window_term = get_buf_size(..) in BYTES added to KiB (D16); TRUE: bytes / 1024 + 1
     HashTermFixed  FALSE: hash_term = (HASH2_MASK + HASH2_SIZE + H4) / 256 + 4, a transcription slip of
                    (HASH2_SIZE + HASH3_SIZE + H4) / 256 + 4 that leaves hash3 (256 KiB) out; TRUE: the latter
     decoders  lzma: 10 + round16(max(dict, 4096)) / 1024 + (1536 << lclp) / 1024 ; lzma2: 40 + 64 + round16(dict) / 1024

   Properties (C17): Sound  Estimate >= AllocKiB ; Tight  Estimate <= C * AllocKiB + K with C = 2, K = 256. *)
EXTENDS Naturals, Sequences, TLC, Json

CONSTANTS UnitsFixed, HashTermFixed, Dicts, Export

C == 2
K == 256
Min2(a, b) == IF a < b THEN a ELSE b
Max2(a, b) == IF a > b THEN a ELSE b
CeilKiB(b) == (b + 1023) \div 1024
Monus(a, b) == IF a > b THEN a - b ELSE 0

\* ------------------------------------------------------------------ pieces shared by inventory and estimator
\* smallest 2^k - 1 >= x  (what h |= h >> 1; h |= h >> 2; ... computes for a 32-bit value)
RECURSIVE AllOnes(_, _)
AllOnes(x, acc) == IF acc >= x THEN acc ELSE AllOnes(x, 2 * acc + 1)
\* Hash234::get_hash4_size
H4(dict) ==
  LET h1 == AllOnes(dict - 1, 0) \div 2
      h2 == IF h1 < 65535 THEN 65535 ELSE h1          \* h |= 0xFFFF on an all-ones value
      h3 == IF h2 > 16777216 THEN h2 \div 2 ELSE h2
  IN h3 + 1
\* extra history kept in front of the dictionary: LZMA2 keeps a whole 64 KiB chunk re-readable
ExtraBefore(p) ==
  LET x == IF p.kind = "lzma2" THEN Monus(65536, p.dict) ELSE 0
  IN IF p.mode = "fast" THEN Max2(x, 1) ELSE Max2(x, 4096)
ExtraAfter(p) == IF p.mode = "fast" THEN 272 ELSE 4096
BufSize(p) == ExtraBefore(p) + p.dict + ExtraAfter(p) + 273 + Min2(p.dict \div 2 + 262144, 536870912)

\* ------------------------------------------------------------------ inventory, in KiB
Round64KiB(entries) == CeilKiB(((entries * 4 + 63) \div 64) * 64)
\* (dict + 1) * 4 and 2 * (dict + 1) * 4 do not fit 32 bits for large dictionaries: divide first
ChainKiB(p) == IF p.dict < 268435456 THEN Round64KiB(p.dict + 1) ELSE (p.dict \div 256) + 1
TreeKiB(p) == IF p.dict < 134217728 THEN Round64KiB(2 * (p.dict + 1)) ELSE (p.dict \div 128) + 1
Items(p) ==
  <<CeilKiB(BufSize(p)), 4, 256, CeilKiB(H4(p.dict) * 4),
    IF p.mf = "hc4" THEN ChainKiB(p) ELSE TreeKiB(p),
    IF p.mode = "normal" THEN 192 ELSE 0,
    CeilKiB(1536 * (2 ^ p.lclp)),
    IF p.kind = "lzma2" THEN 64 ELSE 0>>
RECURSIVE SumSeq(_)
SumSeq(s) == IF s = <<>> THEN 0 ELSE Head(s) + SumSeq(Tail(s))
AllocKiB(p) == SumSeq(Items(p))

\* ------------------------------------------------------------------ estimators as coded
\* LZMAOptions::get_memory_usage always assumes the LZMA2 history reserve, whichever writer uses the options
EstBufSize(p) == BufSize([p EXCEPT !.kind = "lzma2"])
WindowTerm(p) == IF UnitsFixed THEN EstBufSize(p) \div 1024 + 1 ELSE EstBufSize(p)
HashTerm(p) == IF HashTermFixed THEN (1024 + 65536 + H4(p.dict)) \div 256 + 4
               ELSE (1023 + 1024 + H4(p.dict)) \div 256 + 4
MfTerm(p) == HashTerm(p) + (IF p.mf = "hc4" THEN p.dict \div 256 ELSE p.dict \div 128) + 10
EncEstimate(p) == 70 + 80 + WindowTerm(p) + MfTerm(p) + (IF p.mode = "normal" THEN 256 ELSE 0)
Round16(d) == ((d + 15) \div 16) * 16
DecLzmaEstimate(dict, lclp) == 10 + Round16(Max2(dict, 4096)) \div 1024 + (1536 * (2 ^ lclp)) \div 1024
DecLzma2Estimate(dict) == 40 + 64 + Round16(dict) \div 1024
DecLzmaAllocKiB(dict, lclp) == CeilKiB(Round16(Max2(dict, 4096))) + CeilKiB(1536 * (2 ^ lclp))
DecLzma2AllocKiB(dict, lclp) == CeilKiB(Round16(dict)) + 64 + CeilKiB(1536 * (2 ^ lclp))

\* ------------------------------------------------------------------ grid and properties
Grid == [kind : {"lzma2", "lzma"}, dict : Dicts, mode : {"fast", "normal"}, mf : {"hc4", "bt4"}, lclp : {0, 3, 4}]
VARIABLE p
Init == p \in Grid
Next == UNCHANGED p
Spec == Init /\ [][Next]_p

Sound == EncEstimate(p) >= AllocKiB(p)
Tight == EncEstimate(p) <= C * AllocKiB(p) + K
DecSound == /\ DecLzmaEstimate(p.dict, p.lclp) >= DecLzmaAllocKiB(p.dict, p.lclp)
            /\ DecLzma2Estimate(p.dict) >= DecLzma2AllocKiB(p.dict, p.lclp)
DecTight == /\ DecLzmaEstimate(p.dict, p.lclp) <= C * DecLzmaAllocKiB(p.dict, p.lclp) + K
            /\ DecLzma2Estimate(p.dict) <= C * DecLzma2AllocKiB(p.dict, p.lclp) + K
Exported == Export => PrintT(ToJson([point |-> p, est |-> EncEstimate(p), alloc |-> AllocKiB(p), items |-> Items(p),
                                     dlz |-> DecLzmaEstimate(p.dict, p.lclp), dlz2 |-> DecLzma2Estimate(p.dict),
                                     dlzalloc |-> DecLzmaAllocKiB(p.dict, p.lclp), dlz2alloc |-> DecLzma2AllocKiB(p.dict, p.lclp)]))
=============================================================================
