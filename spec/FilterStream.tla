---------------------------- MODULE FilterStream ----------------------------
(* Streaming state of the BCJ and Delta filters (src/filter/bcj.rs, src/filter/delta.rs and the
   `self.pos += i` discipline of the eight coders in src/filter/bcj/*.rs).

   Abstraction of a BCJ filter: (window K, alignment A, position-dependent conversion).
   A stream is `len` bytes; `heads` maps the positions at which a branch instruction starts to the
   scan step taken when that instruction is converted (x86 5, Thumb 4, RISC-V JAL 4 / AUIPC pair 8;
   the fixed-width coders step A = K regardless of content). `code(buf)` examines position i only
   if K bytes are available, converts a head (operand := operand +/- believed absolute position)
   and steps over it, steps A over anything else, and returns how far it got. What is recorded
   for a converted head is the offset the coder *believed* it had; the conversion is undone by the
   decoder only if both sides believed the true offset. The address arithmetic itself (and the
   x86 prev_mask heuristic) is not modelled; C11's byte-level oracles decide it on the code.

   Three machines, selected by Mode:
     "reader"  BCJReader::read as coded: filter_buf of B bytes (4096; 6 in the small model) with
               pos / filtered / unfiltered carry-over, one action per loop phase, source reads of
               arbitrary legal sizes. Properties ReaderInverse, ScanPrefix, BufBound, ZeroReadNoop.
     "writer"  BCJWriter::write. Buffered = FALSE is the code as built (every call filters its own
               slice, forwards the unconverted tail raw, advances the position only by the processed
               part, scanning restarts at the next slice); Buffered = TRUE is the intended design
               (tail carried over, position advanced by every byte emitted, finish flushes).
               WriteAll = FALSE: the number of bytes the sink accepted is ignored (as built at the
               pinned commit); TRUE: write_all. Properties PartitionIndependent, ShortWriteSafe.
     "delta"   Delta history ring (256 scaled to R) driven by DeltaWriter::write / DeltaReader::read.
               WriteAll = FALSE: history advanced over the whole slice, inner.write's short count
               returned to the caller, who re-submits bytes already in the history.
               Properties DeltaHistory (writer), DeltaInverse (reader). *)
EXTENDS Integers, Sequences, FiniteSets, TLC

CONSTANTS Mode,
          B, K, A,        \* reader buffer, window, alignment (B > K, A divides every step)
          Lens,           \* stream lengths explored
          HeadChoices,    \* set of functions [positions -> step]; {} = every subset of positions with step K
          ReadSizes,      \* destination buffer lengths offered to read()
          SrcChunks,      \* the source returns min(request, available, c) for some c in SrcChunks
          WriteSizes,     \* slice lengths offered to write() (0 = empty write)
          SinkCaps,       \* the sink accepts min(request, c) bytes per call, c in SinkCaps
          Buffered, WriteAll,
          R, Dists,       \* delta: ring size (power of two), distances explored (1..R)
          Role            \* delta: "w" | "r" - the writer and the reader machine are explored separately

VARIABLES len, heads, r, w, d
vars == <<len, heads, r, w, d>>

Min(S) == CHOOSE x \in S : \A y \in S : x <= y
Step(H, h) == H[h]

\* ------------------------------------------------------------------ code(buf): the scan
\* where the scan stops when nothing more is convertible: smallest j >= i on i's lattice with j + K > hi
StopAt(i, hi) == IF i + K > hi THEN i ELSE i + A * (((hi - K - i) \div A) + 1)
NextHead(H, i, hi) ==
  LET C == {h \in DOMAIN H : h >= i /\ (h - i) % A = 0 /\ h + K <= hi}
  IN IF C = {} THEN -1 ELSE Min(C)
RECURSIVE Scan(_, _, _)
\* <<position reached, heads converted>> for code() over stream positions [i, hi)
Scan(H, i, hi) ==
  LET h == NextHead(H, i, hi)
  IN IF h = -1 THEN <<StopAt(i, hi), {}>>
     ELSE LET s == Scan(H, h + Step(H, h), hi) IN <<s[1], s[2] \cup {h}>>
\* a token that starts inside the window but whose step leaves it ends the scan at hi at most
Reach(H, i, hi) == LET s == Scan(H, i, hi) IN <<IF s[1] > hi THEN hi ELSE s[1], s[2]>>

\* what one code() call over the whole stream converts: the canonical (one-shot) result
OneShot(H, n) == Scan(H, 0, n)[2]

AllHeads(n) == UNION {[S -> {K}] : S \in SUBSET (0..(n - 1))}
Choices(n) == IF HeadChoices = {} THEN AllHeads(n)
              ELSE {H \in HeadChoices : \A h \in DOMAIN H : h < n}

\* ------------------------------------------------------------------ reader (BCJReader::read)
R0 == [pc |-> "choose", rd |-> 0, done |-> 0, outn |-> 0, bp |-> 0, eof |-> FALSE, conv |-> {},
       want |-> 0, got |-> 0, last |-> -1, end |-> FALSE]
Filtered == r.done - r.outn
Unfiltered == r.rd - r.done
Space == B - (r.bp + Filtered + Unfiltered)

RCall(n) ==      \* Read::read(buf) with buf.len() = n
  /\ Mode = "reader" /\ r.pc = "idle"
  /\ r' = IF n = 0 THEN [r EXCEPT !.last = 0]                       \* empty-buffer guard: nothing changes
          ELSE [r EXCEPT !.pc = "copy", !.want = IF n > len THEN len + 1 ELSE n,   \* more than the stream holds: all "big"
                         !.got = 0, !.last = -1]
  /\ UNCHANGED <<len, heads, w, d>>

RCopy ==         \* copy filtered bytes out, compact when the buffer end is reached, return or go on
  /\ Mode = "reader" /\ r.pc = "copy"
  /\ LET c == IF Filtered < r.want THEN Filtered ELSE r.want
         bp1 == r.bp + c
         bp2 == IF bp1 + (Filtered - c) + Unfiltered = B THEN 0 ELSE bp1
         r1 == [r EXCEPT !.outn = @ + c, !.bp = bp2, !.want = @ - c, !.got = @ + c]
     IN r' = IF r1.want = 0 \/ r1.eof
               THEN [r1 EXCEPT !.pc = "idle", !.last = r1.got, !.end = (r1.got = 0), !.want = 0, !.got = 0]
               ELSE [r1 EXCEPT !.pc = "fill"]
  /\ UNCHANGED <<len, heads, w, d>>

RFill(m) ==      \* inner.read(&mut filter_buf[start..]) returned m; then filter
  /\ Mode = "reader" /\ r.pc = "fill"
  /\ Filtered = 0 /\ Space > 0
  /\ m <= Space /\ m <= len - r.rd
  /\ (m = 0) = (r.rd = len)                     \* a source returns 0 exactly at its end
  /\ IF m = 0
       THEN r' = [r EXCEPT !.pc = "copy", !.eof = TRUE, !.done = r.rd]     \* tail handed out unfiltered
       ELSE LET s == Reach(heads, r.done, r.rd + m)
            IN r' = [r EXCEPT !.pc = "copy", !.rd = @ + m, !.done = s[1], !.conv = @ \cup s[2]]
  /\ UNCHANGED <<len, heads, w, d>>

RChoose(n, H) ==
  /\ Mode = "reader" /\ r.pc = "choose"
  /\ len' = n /\ heads' = H /\ r' = [r EXCEPT !.pc = "idle"]
  /\ UNCHANGED <<w, d>>

SrcRet(c) == LET a == IF c < Space THEN c ELSE Space IN IF a < len - r.rd THEN a ELSE len - r.rd

RNext ==
  \/ (r.pc = "choose" /\ \E n \in Lens : \E H \in Choices(n) : RChoose(n, H))
  \/ \E n \in ReadSizes : RCall(n)
  \/ RCopy
  \/ (r.pc = "fill" /\ \E m \in 0..B : (\E c \in SrcChunks : m = SrcRet(c)) /\ RFill(m))

\* ------------------------------------------------------------------ writer (BCJWriter::write)
W0 == [pc |-> "choose", fed |-> 0, wdone |-> 0, wpos |-> 0, conv |-> {}, sunk |-> 0, handed |-> 0,
       fin |-> FALSE, p |-> 0, t |-> 0]
Accept(n, c) == IF WriteAll \/ c >= n THEN n ELSE c

WWrite(n, c1, c2) ==   \* write(&data[fed .. fed+n]); the sink accepts at most c1 then c2 bytes per call
  /\ Mode = "writer" /\ w.pc = "idle" /\ ~w.fin /\ n <= len - w.fed
  /\ IF Buffered
       THEN LET s == Reach(heads, w.wdone, w.fed + n)
                p == s[1] - w.wdone
            IN w' = [w EXCEPT !.fed = @ + n, !.wdone = s[1], !.wpos = s[1],
                              !.conv = @ \cup {<<h, h>> : h \in s[2]},
                              !.handed = @ + p, !.sunk = @ + Accept(p, c1), !.p = p, !.t = 0]
       ELSE LET s == Reach(heads, w.fed, w.fed + n)
                p == s[1] - w.fed                  \* processed part of this call
                t == n - p                         \* unconverted tail, forwarded raw
            IN w' = [w EXCEPT !.fed = @ + n, !.wdone = w.fed + n, !.wpos = @ + p,
                              !.conv = @ \cup {<<h, w.wpos + (h - w.fed)>> : h \in s[2]},
                              !.handed = @ + n,
                              !.sunk = @ + Accept(p, c1) + Accept(t, c2), !.p = p, !.t = t]
  /\ UNCHANGED <<len, heads, r, d>>

\* <<processed, raw tail>> of write(n) in the current state
WParts(n) == IF Buffered THEN LET s == Reach(heads, w.wdone, w.fed + n) IN <<s[1] - w.wdone, 0>>
             ELSE LET s == Reach(heads, w.fed, w.fed + n) IN <<s[1] - w.fed, n - (s[1] - w.fed)>>

WFlush == /\ Mode = "writer" /\ w.pc = "idle" /\ ~w.fin /\ UNCHANGED vars    \* inner.flush() only

WFinish ==      \* Buffered design: finish() emits the carried tail; as built: nothing left to do
  /\ Mode = "writer" /\ w.pc = "idle" /\ ~w.fin /\ w.fed = len
  /\ w' = [w EXCEPT !.fin = TRUE, !.handed = len,
                    !.sunk = IF Buffered THEN @ + (len - w.wdone) ELSE @]
  /\ UNCHANGED <<len, heads, r, d>>

WChoose(n, H) ==
  /\ Mode = "writer" /\ w.pc = "choose"
  /\ len' = n /\ heads' = H /\ w' = [w EXCEPT !.pc = "idle"]
  /\ UNCHANGED <<r, d>>

WNext ==
  \/ (w.pc = "choose" /\ \E n \in Lens : \E H \in Choices(n) : WChoose(n, H))
  \/ \E n \in WriteSizes : \E c1, c2 \in SinkCaps : WWrite(n, c1, c2)
  \/ WFinish

\* ------------------------------------------------------------------ delta
Ring == 0..(R - 1)
D0 == [pc |-> "choose", dist |-> 1, hist |-> [i \in Ring |-> -1], pos |-> 0, fed |-> 0,
       sunk |-> <<>>, ok |-> TRUE, rdn |-> 0]
\* one byte through Delta::encode / decode: the history slot read, then the slot written, pos decremented
DeltaStep(s, x) ==
  [s EXCEPT !.hist = [@ EXCEPT ![s.pos % R] = x], !.pos = (s.pos + R - 1) % R]
SlotRead(s) == s.hist[(s.dist + s.pos) % R]
RECURSIVE EncodeRun(_, _, _, _)
\* <<state, outputs>> after encoding bytes x .. x+n-1 ; an output is <<byte index, history byte index>>
EncodeRun(s, x, n, acc) ==
  IF n = 0 THEN <<s, acc>>
  ELSE EncodeRun(DeltaStep(s, x), x + 1, n - 1, Append(acc, <<x, SlotRead(s)>>))

DWrite(n, c) ==   \* DeltaWriter::write(&data[fed .. fed+n]), the sink accepts at most c bytes
  /\ Mode = "delta" /\ Role = "w" /\ d.pc = "idle" /\ n >= 1 /\ n <= len - d.fed
  /\ LET e == EncodeRun(d, d.fed, n, <<>>)
         m == IF WriteAll \/ c >= n THEN n ELSE c
     IN d' = [e[1] EXCEPT !.fed = d.fed + m, !.sunk = d.sunk \o SubSeq(e[2], 1, m)]
  /\ UNCHANGED <<len, heads, r, w>>

DRead(n) ==       \* DeltaReader::read: n bytes of the canonical encoding arrive and are decoded in place
  /\ Mode = "delta" /\ Role = "r" /\ d.pc = "idle" /\ n >= 1 /\ n <= len - d.rdn
  /\ LET e == EncodeRun([d EXCEPT !.pos = d.pos], d.rdn, n, <<>>)
         want == [k \in 1..n |-> IF d.rdn + k - 1 >= d.dist THEN d.rdn + k - 1 - d.dist ELSE -1]
     IN d' = [e[1] EXCEPT !.rdn = d.rdn + n,
                          !.ok = d.ok /\ \A k \in 1..n : e[2][k][2] = want[k]]
  /\ UNCHANGED <<len, heads, r, w>>

DChoose(n, dist) ==
  /\ Mode = "delta" /\ d.pc = "choose"
  /\ len' = n /\ d' = [d EXCEPT !.pc = "idle", !.dist = dist]
  /\ UNCHANGED <<heads, r, w>>

DNext ==
  \/ \E n \in Lens : \E x \in Dists : DChoose(n, x)
  \/ \E n \in WriteSizes : \E c \in SinkCaps : DWrite(n, c)
  \/ \E n \in ReadSizes : DRead(n)

\* ------------------------------------------------------------------ specification
Init == /\ len = 0 /\ heads = << >>
        /\ r = R0 /\ w = W0 /\ d = D0
Next == RNext \/ WNext \/ DNext
Spec == Init /\ [][Next]_vars

\* ------------------------------------------------------------------ properties
TypeOK ==
  /\ r.outn <= r.done /\ r.done <= r.rd /\ r.rd <= len
  /\ w.sunk <= w.handed /\ w.handed <= len /\ w.fed <= len
BufBound == r.bp + (r.rd - r.outn) <= B /\ r.bp >= 0 /\ (r.rd - r.done) < K + A
\* the reader's scan is a prefix of the one-shot scan: it converts exactly the one-shot heads it has passed
ScanPrefix == r.pc # "choose" /\ ~r.eof => r.conv = {h \in OneShot(heads, len) : h < r.done}
\* reader o one-shot writer = id: at end of stream every byte was delivered and exactly the heads the
\* one-shot writer converted were converted back (each at its true offset, by construction of the reader)
\* (`end`: a read with a non-empty buffer returned 0)
ReaderInverse == /\ r.end => r.outn = len
                 /\ (r.eof /\ r.outn = len) => r.conv = OneShot(heads, len)
\* writer output independent of the write partition (C07); false for the code as built (D9)
PartitionIndependent == w.fin => w.conv = {<<h, h>> : h \in OneShot(heads, len)}
\* every byte handed to the sink arrived (C05 / C07); false while the accepted count is ignored
ShortWriteSafe == w.fin => w.sunk = len
Canon(k, dist) == <<k, IF k >= dist THEN k - dist ELSE -1>>
DeltaHistory == \A k \in 1..Len(d.sunk) : d.sunk[k] = Canon(k - 1, d.dist)
DeltaInverse == d.ok

\* witnesses for vacuity guards (each must be violated by some behaviour)
WitnessStraddle == ~(r.pc = "copy" /\ r.rd - r.done > 0 /\ r.rd < len)     \* a tail was carried over
WitnessEofTail == ~(r.eof /\ r.done > 0 /\ \E h \in DOMAIN heads : h + K > len /\ h >= r.outn)
WitnessCompact == ~(r.pc = "fill" /\ r.bp = 0 /\ r.outn > 0 /\ r.rd > r.done)
=============================================================================
