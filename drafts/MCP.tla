---- MODULE MCP ----
EXTENDS MtReaderP
C3I == <<"I","I","I">>
C2ID == <<"I","D","I">>
C0 == <<>>
C4 == <<"I","I","D","I">>
====
