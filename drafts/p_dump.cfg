SPECIFICATION SpecSafe
CONSTANTS MaxWorkers = 2
 Chunks <- C3I
 Terminated = TRUE
 BadUnits = {}
 DropAfter = 99
 FixCloseLock = FALSE
 FixEofError = FALSE
CHECK_DEADLOCK FALSE
