SPECIFICATION Spec
CONSTANTS Dict = 2
 ExtraBefore = 6
 ExtraAfter = 2
 MatchMax = 3
 Reserve = 4
 CLimit = 5
 ULimit = 9
 ReqFlush = 2
 ReqFinish = 2
 MaxLook = 1
 N = 20
 MaxWrite = 4
INVARIANTS NoBad IndicesInRange AllAccounted NoStuck
CHECK_DEADLOCK FALSE
