---------------------------- MODULE EncWindowT ----------------------------
(* DRAFT: LZ encoder sliding window + look-ahead + LZMA2 chunk copy-back, scaled constants.
   Buffer coordinates as in lz_encoder.rs; alignment of move_window scaled to 1. *)
EXTENDS Integers, Sequences, TLC

CONSTANTS Dict, ExtraBefore, ExtraAfter, MatchMax, Reserve,
          CLimit,      \* chunk closes once uncomp >= CLimit (compressed limit hit on incompressible data)
          ULimit,      \* or uncomp > ULimit
          ReqFlush, ReqFinish, MaxLook, \* match finder requirements, max extra look-ahead of the mode
          N, MaxWrite, \* total bytes the caller will write, max bytes per write call
          TraceMode, Align

KeepBefore == ExtraBefore + Dict
KeepAfter  == ExtraAfter + MatchMax
BufSize    == KeepBefore + KeepAfter + Reserve

VARIABLES readPos, readLimit, writePos, pending, finishing,   \* LZEncoderData
          readAhead, uncomp, started,                          \* LZMAEncoder
          wpend,                                               \* LZMA2Writer.pending_size
          base, total,                                         \* ghosts: stream offset of buf[0]; bytes accepted
          pc, left,                                            \* writer control: where in write()/flush()/finish()
          bad                                                  \* ghost: first violated bound
vars == <<readPos, readLimit, writePos, pending, finishing, readAhead, uncomp, started, wpend, base, total, pc, left, bad>>

Init == /\ readPos = -1 /\ readLimit = -1 /\ writePos = 0 /\ pending = 0 /\ finishing = FALSE
        /\ readAhead = -1 /\ uncomp = 0 /\ started = FALSE /\ wpend = 0
        /\ base = 0 /\ total = 0 /\ pc = "idle" /\ left = 0 /\ bad = "none"

\* ---- LZEncoderData primitives as pure functions on a record
St == [rp |-> readPos, rl |-> readLimit, wp |-> writePos, pe |-> pending, b |-> base]

MovePos(s, reqFl, reqFi) ==   \* returns new record; pe counts positions not yet hashed
  LET rp == s.rp + 1
      avail == s.wp - rp
  IN IF avail < reqFl /\ (avail < reqFi \/ ~finishing)
       THEN [s EXCEPT !.rp = rp, !.pe = s.pe + 1]
       ELSE [s EXCEPT !.rp = rp]

RECURSIVE Skip(_, _)
Skip(s, k) == IF k = 0 THEN s ELSE Skip(MovePos(s, ReqFlush, ReqFinish), k - 1)

ProcessPending(s) ==
  IF s.pe > 0 /\ s.rp < s.rl
    THEN Skip([s EXCEPT !.rp = s.rp - s.pe, !.pe = 0], s.pe)
    ELSE s

\* ---- caller
CallWrite == /\ pc = "idle" /\ total < N /\ ~finishing
             /\ \E n \in 1..MaxWrite : n <= N - total /\ left' = n
             /\ pc' = "fill"
             /\ UNCHANGED <<readPos, readLimit, writePos, pending, finishing, readAhead, uncomp, started, wpend, base, total, bad>>

Fill ==
  /\ pc = "fill"
  /\ LET s0 == St
         moved == s0.rp >= BufSize - KeepAfter
         off0 == IF moved THEN s0.rp + 1 - KeepBefore ELSE 0
         off == off0 - (off0 % Align)
         s1 == [s0 EXCEPT !.rp = s0.rp - off, !.rl = s0.rl - off, !.wp = s0.wp - off, !.b = s0.b + off]
         len == IF left > BufSize - s1.wp THEN BufSize - s1.wp ELSE left
         wp2 == s1.wp + len
         s2 == [s1 EXCEPT !.wp = wp2, !.rl = IF wp2 >= KeepAfter THEN wp2 - KeepAfter ELSE s1.rl]
         s3 == ProcessPending(s2)
     IN /\ readPos' = s3.rp /\ readLimit' = s3.rl /\ writePos' = s3.wp /\ pending' = s3.pe /\ base' = s3.b
        /\ left' = left - len /\ total' = total + len /\ wpend' = wpend + len
        /\ bad' = IF bad = "none" /\ off < 0 THEN "move_offset_negative" ELSE bad
  /\ pc' = "enc"
  /\ UNCHANGED <<finishing, readAhead, uncomp, started>>

HasEnough(already) == readPos - already < readLimit

\* one encode_init or encode_symbol; la = extra look-ahead positions the mode examined
EncodeP(len, ra2) ==
  /\ pc \in {"enc", "flushenc"}
  /\ uncomp <= ULimit /\ (TraceMode \/ uncomp < CLimit)
  /\ IF ~started
       THEN /\ HasEnough(0) /\ len = 1 /\ ra2 = -1
            /\ LET s == Skip(St, 1)
               IN readPos' = s.rp /\ pending' = s.pe
            /\ started' = TRUE /\ uncomp' = uncomp + 1 /\ UNCHANGED readAhead
       ELSE /\ HasEnough(readAhead + 1)
            /\ LET k == len + ra2 - readAhead        \* number of move_pos calls in this symbol
                   symStart == readPos - readAhead    \* buffer index of the first byte of the symbol
               IN /\ k >= (IF readAhead = -1 THEN 1 ELSE 0)
                  /\ symStart + len <= writePos       \* symbol inside buffered data
                  /\ readPos + k < writePos           \* match finder stays inside buffered data
                  /\ LET s == Skip(St, k)
                     IN readPos' = s.rp /\ pending' = s.pe
                  /\ readAhead' = ra2 /\ uncomp' = uncomp + len
            /\ UNCHANGED started
  /\ UNCHANGED <<readLimit, writePos, finishing, wpend, base, total, pc, left, bad>>
Encode == \E len \in 1..MatchMax, ra2 \in -1..MaxLook : EncodeP(len, ra2)

\* encode_for_lzma2 returned false (not enough data): back to the write loop / no chunk
EncodeStall ==
  /\ pc = "enc"
  /\ uncomp <= ULimit /\ (TraceMode \/ uncomp < CLimit)
  /\ IF ~started THEN ~HasEnough(0) ELSE ~HasEnough(readAhead + 1)
  /\ pc' = IF left > 0 THEN "fill" ELSE "idle"
  /\ UNCHANGED <<readPos, readLimit, writePos, pending, finishing, readAhead, uncomp, started, wpend, base, total, left, bad>>

\* write_chunk: limit reached (or flush/finish drained everything it could)
ChunkClose(kind) ==
  /\ \/ (pc = "enc" /\ (TraceMode \/ uncomp > ULimit \/ uncomp >= CLimit))
     \/ (pc = "flushenc" /\ uncomp > 0
         /\ (TraceMode \/ uncomp > ULimit \/ uncomp >= CLimit \/ (IF ~started THEN ~HasEnough(0) ELSE ~HasEnough(readAhead + 1))))
  /\ IF kind = "lzma"
       THEN /\ wpend' = wpend - uncomp /\ uncomp' = 0 /\ UNCHANGED <<readAhead, bad>>
       ELSE \* raw fallback only plausible when the chunk did not compress: uncomp <= CLimit + MatchMax
            /\ (TraceMode \/ uncomp <= CLimit + MatchMax)
            /\ LET u == uncomp + readAhead + 1
               IN /\ bad' = IF bad = "none" /\ readPos + 1 - u < 0 THEN "copy_before_buffer" ELSE bad
                  /\ wpend' = wpend - u
            /\ uncomp' = 0 /\ readAhead' = -1
  /\ pc' = IF pc = "enc" THEN (IF left > 0 THEN "fill" ELSE "idle")
           ELSE (IF wpend' > 0 THEN "flushenc" ELSE "idle")
  /\ UNCHANGED <<readPos, readLimit, writePos, pending, finishing, started, base, total, left>>

CallFlush(fin) ==
  /\ pc = "idle" /\ ~finishing
  /\ (fin => total = N)
  /\ LET s == ProcessPending([St EXCEPT !.rl = writePos - 1])
     IN readPos' = s.rp /\ readLimit' = s.rl /\ pending' = s.pe
  /\ finishing' = fin
  /\ pc' = IF wpend > 0 THEN "flushenc" ELSE "idle"
  /\ UNCHANGED <<writePos, readAhead, uncomp, started, wpend, base, total, left, bad>>

Next == CallWrite \/ Fill \/ Encode \/ EncodeStall \/ ChunkClose("lzma") \/ ChunkClose("raw")
        \/ CallFlush(FALSE) \/ CallFlush(TRUE)
Spec == Init /\ [][Next]_vars

\* ---- properties
NoBad == bad = "none"
IndicesInRange == /\ readPos >= -1 /\ writePos <= BufSize
                  /\ (writePos = 0 \/ readLimit <= writePos - 1)
                  /\ (writePos = 0 \/ readPos < writePos)
\* after finish everything was emitted
AllAccounted == (finishing /\ pc = "idle") => wpend = 0
\* encoder never stalls forever with data it could encode after finish
NoStuck == (finishing /\ pc = "flushenc") => ENABLED (Encode \/ ChunkClose("lzma"))
=============================================================================
