---------------------------- MODULE TraceW ----------------------------
EXTENDS EncWindowT, Json, IOUtils
Rec == ndJsonDeserialize(IOEnv.TRACE)
VARIABLE l
tvars == <<vars, l>>
Ev == Rec[l]
Is(e) == l <= Len(Rec) /\ Ev.ev = e
TInit == Init /\ l = 1 /\ TLCSet(1, 1)
TWrite == Is("A") /\ Ev.call = "write" /\ CallWrite /\ left' = Ev.n
TFlush == Is("A") /\ Ev.call = "flush" /\ CallFlush(FALSE)
TFinish == Is("A") /\ Ev.call = "finish" /\ CallFlush(TRUE)
TFill == Is("F") /\ Fill /\ readPos' = Ev.rp /\ readLimit' = Ev.rl /\ writePos' = Ev.wp /\ pending' = Ev.pe /\ left' = left - Ev.len
TSym == Is("S") /\ EncodeP(Ev.len, Ev.ra) /\ readPos' = Ev.rp /\ pending' = Ev.pe /\ readAhead' = Ev.ra /\ uncomp' = Ev.un
TChunk == Is("C") /\ ChunkClose(IF Ev.raw = 1 THEN "raw" ELSE "lzma") /\ readPos = Ev.rp
TNext == \/ (l' = l + 1 /\ (TWrite \/ TFlush \/ TFinish \/ TFill \/ TSym \/ TChunk))
         \/ (l' = l /\ EncodeStall)
TSpec == TInit /\ [][TNext]_tvars
Track == IF l > TLCGet(1) THEN TLCSet(1, l) ELSE TRUE
Accepted == IF TLCGet(1) = Len(Rec) + 1 THEN TRUE
            ELSE Print(<<"REJECTED after event", TLCGet(1) - 1, "next", Rec[TLCGet(1)]>>, FALSE)
=============================================================================
