---------------------------- MODULE MatchFinderPos ----------------------------
(* DRAFT: match-finder positions in a W-bit signed word, renormalisation at MaxPos (hc4.rs /
   bt4.rs move_pos, hash234.rs normalize, lz_encoder.rs normalize variants). Scaled word width. *)
EXTENDS Integers, TLC
CONSTANTS W, Dict, Slots, Steps,
          NormKind   \* "max0" = max(p-off,0) (SIMD variants, Java original); "sat" = signed saturating_sub (normalize_scalar)

MaxPos == 2^(W-1) - 1
MinPos == -(2^(W-1))
Cyc == Dict + 1
Wrap(x) == ((x - MinPos) % (2^W)) + MinPos          \* two's-complement wrap-around
Norm(p, off) == IF NormKind = "max0" THEN (IF p - off > 0 THEN p - off ELSE 0)
                ELSE (IF p - off < MinPos THEN MinPos ELSE p - off)
Never == -1

VARIABLES lzPos, abs, e, ghost, n, norms
vars == <<lzPos, abs, e, ghost, n, norms>>
Init == /\ lzPos = Cyc /\ abs = 0 /\ e = [s \in Slots |-> 0] /\ ghost = [s \in Slots |-> Never]
        /\ n = 0 /\ norms = 0

\* move_pos, then optionally record the position in a slot (update_tables / chain store)
Advance(store, s) ==
  /\ n < Steps /\ n' = n + 1 /\ abs' = abs + 1
  /\ LET p1 == lzPos + 1 IN
     IF p1 = MaxPos
       THEN LET off == MaxPos - Cyc
                pn == p1 - off
            IN /\ lzPos' = pn /\ norms' = norms + 1
               /\ e' = [t \in Slots |-> IF store /\ t = s THEN pn ELSE Norm(e[t], off)]
       ELSE /\ lzPos' = p1 /\ norms' = norms
            /\ e' = IF store THEN [e EXCEPT ![s] = p1] ELSE e
  /\ ghost' = IF store THEN [ghost EXCEPT ![s] = abs + 1] ELSE ghost

Next == \E s \in Slots : Advance(TRUE, s) \/ Advance(FALSE, s)
Spec == Init /\ [][Next]_vars

\* what find_matches does with a table entry: delta = lz_pos - entry (wrapping in release builds),
\* candidate accepted iff delta < cyclic_size
Delta(s) == Wrap(lzPos - e[s])
TrueDistance == \A s \in Slots : Delta(s) < Cyc => (Delta(s) >= 0 /\ ghost[s] # Never /\ abs - ghost[s] = Delta(s))
NoOverflow == \A s \in Slots : lzPos - e[s] <= MaxPos    \* debug builds panic on the plain subtraction
=============================================================================
