SPECIFICATION Spec
CONSTANTS MaxWorkers = 2
 Chunks <- C3I
 Terminated = TRUE
 BadUnits = {}
 DropAfter = 99
 FixCloseLock = FALSE
 FixEofError = FALSE
INVARIANTS InOrder NoFalseSuccess WorkerBound NoDeadlock
PROPERTIES CallsReturn WorkersReleased
CHECK_DEADLOCK FALSE
