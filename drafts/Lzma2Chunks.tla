---------------------------- MODULE Lzma2Chunks ----------------------------
(* DRAFT: LZMA2 chunk-header protocol, LZMA2Writer flags <-> LZMA2Reader flags. *)
EXTENDS Naturals, Sequences, TLC

CONSTANTS MaxChunks, Preset, ChunkSizeSet, FixForce, FixEmptyPreset

VARIABLES dictReset, stateReset, propsNeeded, force,      \* writer flags
          encWinFresh, encOrigin, encStateFresh,           \* encoder ground truth
          rNeedDict, rNeedProps, decOrigin, decInSync, rejected,  \* reader
          n, finished, lastKind

vars == <<dictReset, stateReset, propsNeeded, force, encWinFresh, encOrigin, encStateFresh,
          rNeedDict, rNeedProps, decOrigin, decInSync, rejected, n, finished, lastKind>>

PresetUsed == IF FixEmptyPreset THEN Preset = "nonempty" ELSE Preset # "none"

Init ==
  /\ dictReset = ~PresetUsed /\ stateReset = TRUE /\ propsNeeded = TRUE /\ force = FALSE
  /\ encWinFresh = TRUE /\ encOrigin = 0 /\ encStateFresh = TRUE
  /\ rNeedDict = (Preset # "nonempty") /\ rNeedProps = TRUE
  /\ decOrigin = (IF Preset = "nonempty" THEN 0 ELSE 99) /\ decInSync = TRUE
  /\ rejected = FALSE /\ n = 0 /\ finished = FALSE /\ lastKind = "none"

\* origin of a fresh encoder window: chunk n+1, or 0 when a non-empty preset dictionary precedes chunk 1
NewOrigin == IF n = 0 /\ Preset = "nonempty" THEN 0 ELSE n + 1
EncOriginNext == IF encWinFresh THEN NewOrigin ELSE encOrigin

ReadLzma(level) ==
  LET resetsDict == level = 3 IN
  /\ rejected' = (rejected \/ (~resetsDict /\ rNeedDict) \/ (level < 2 /\ rNeedProps))
  /\ rNeedDict' = IF resetsDict THEN FALSE ELSE rNeedDict
  /\ rNeedProps' = IF level >= 2 THEN FALSE ELSE rNeedProps
  /\ decOrigin' = IF resetsDict THEN n + 1 ELSE decOrigin
  /\ decInSync' = IF level >= 1 THEN encStateFresh ELSE (decInSync /\ ~encStateFresh)

ReadUnc(resetsDict) ==
  /\ rejected' = (rejected \/ (~resetsDict /\ rNeedDict))
  /\ rNeedDict' = IF resetsDict THEN FALSE ELSE rNeedDict
  /\ rNeedProps' = IF resetsDict THEN TRUE ELSE rNeedProps
  /\ decOrigin' = IF resetsDict THEN n + 1 ELSE decOrigin
  /\ UNCHANGED decInSync

EmitLzma ==
  /\ ~finished /\ n < MaxChunks
  /\ LET level == IF propsNeeded \/ force THEN (IF dictReset \/ force THEN 3 ELSE 2)
                  ELSE IF stateReset THEN 1 ELSE 0
     IN ReadLzma(level)
  /\ encOrigin' = EncOriginNext /\ encWinFresh' = FALSE /\ encStateFresh' = FALSE
  /\ propsNeeded' = FALSE /\ stateReset' = FALSE /\ dictReset' = FALSE /\ force' = FALSE
  /\ n' = n + 1 /\ lastKind' = "lzma" /\ UNCHANGED finished

EmitUnc ==
  /\ ~finished /\ n < MaxChunks
  /\ ReadUnc(dictReset)
  /\ encOrigin' = EncOriginNext /\ encWinFresh' = FALSE /\ encStateFresh' = TRUE
  /\ dictReset' = FALSE /\ stateReset' = TRUE
  /\ force' = IF FixForce THEN FALSE ELSE force
  /\ UNCHANGED propsNeeded
  /\ n' = n + 1 /\ lastKind' = "unc" /\ UNCHANGED finished

StartIndependent ==
  /\ ChunkSizeSet /\ ~finished /\ n > 0 /\ n < MaxChunks /\ ~encWinFresh
  /\ force' = TRUE /\ dictReset' = TRUE /\ stateReset' = TRUE /\ propsNeeded' = TRUE
  /\ encWinFresh' = TRUE /\ encStateFresh' = TRUE
  /\ UNCHANGED <<encOrigin, rNeedDict, rNeedProps, decOrigin, decInSync, rejected, n, finished, lastKind>>

Finish == /\ ~finished /\ finished' = TRUE
          /\ UNCHANGED <<dictReset, stateReset, propsNeeded, force, encWinFresh, encOrigin, encStateFresh,
                         rNeedDict, rNeedProps, decOrigin, decInSync, rejected, n, lastKind>>

Next == EmitLzma \/ EmitUnc \/ StartIndependent \/ Finish
Spec == Init /\ [][Next]_vars

Accepted == ~rejected
DictSync == (n > 0 /\ ~encWinFresh) => decOrigin = encOrigin
StateSync == lastKind = "lzma" => decInSync
=============================================================================
