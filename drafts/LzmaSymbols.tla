---------------------------- MODULE LzmaSymbols ----------------------------
(* DRAFT: LZMA `state` / `reps` machine, transcribed separately from the encoder
   (encoder.rs: encode_symbol / encode_match / encode_rep_match) and from the decoder
   (decoder.rs: decode / decode_match / decode_rep_match), and state.rs. *)
EXTENDS Integers, Sequences, TLC

CONSTANTS Dists, MaxLen   \* model-checking: distances to try, bound on sequence length

\* ---- state.rs
UpdLit(s)      == IF s <= 3 THEN 0 ELSE IF s <= 9 THEN s - 3 ELSE s - 6
UpdMatch(s)    == IF s < 7 THEN 7 ELSE 10
UpdLongRep(s)  == IF s < 7 THEN 8 ELSE 11
UpdShortRep(s) == IF s < 7 THEN 9 ELSE 11

\* ---- encoder side: back = -1 literal, 0..3 rep index, >= 4 match with dist = back - 4
EncStep(m, back, len) ==
  IF back = -1 THEN [st |-> UpdLit(m.st), r |-> m.r]
  ELSE IF back >= 4 THEN [st |-> UpdMatch(m.st), r |-> <<back - 4, m.r[1], m.r[2], m.r[3]>>]
  ELSE LET r2 == CASE back = 0 -> m.r
                   [] back = 1 -> <<m.r[2], m.r[1], m.r[3], m.r[4]>>
                   [] back = 2 -> <<m.r[3], m.r[1], m.r[2], m.r[4]>>
                   [] back = 3 -> <<m.r[4], m.r[1], m.r[2], m.r[3]>>
       IN [st |-> IF len = 1 THEN UpdShortRep(m.st) ELSE UpdLongRep(m.st), r |-> r2]

\* ---- decoder side, written from decode_match / decode_rep_match
DecLit(m) == [st |-> UpdLit(m.st), r |-> m.r]
DecMatch(m, dist) == [st |-> UpdMatch(m.st), r |-> <<dist, m.r[1], m.r[2], m.r[3]>>]
DecShortRep(m) == [st |-> UpdShortRep(m.st), r |-> m.r]
DecLongRep(m, i) ==   \* i = which rep the bit tree selected
  LET r2 == IF i = 0 THEN m.r
            ELSE IF i = 1 THEN <<m.r[2], m.r[1], m.r[3], m.r[4]>>
            ELSE IF i = 2 THEN <<m.r[3], m.r[1], m.r[2], m.r[4]>>
            ELSE <<m.r[4], m.r[1], m.r[2], m.r[3]>>
  IN [st |-> UpdLongRep(m.st), r |-> r2]

\* ---- exhaustive agreement check
VARIABLES enc, dec, n
vars == <<enc, dec, n>>
M0 == [st |-> 0, r |-> <<0, 0, 0, 0>>]
Init == enc = M0 /\ dec = M0 /\ n = 0
Lit == enc' = EncStep(enc, -1, 1) /\ dec' = DecLit(dec)
Match(d) == enc' = EncStep(enc, d + 4, 2) /\ dec' = DecMatch(dec, d)
ShortRep == enc' = EncStep(enc, 0, 1) /\ dec' = DecShortRep(dec)
LongRep(i) == enc' = EncStep(enc, i, 2) /\ dec' = DecLongRep(dec, i)
Next == n < MaxLen /\ n' = n + 1 /\ (Lit \/ ShortRep \/ (\E d \in Dists : Match(d)) \/ (\E i \in 0..3 : LongRep(i)))
Spec == Init /\ [][Next]_vars
Agree == enc = dec
StateRange == enc.st \in 0..11
LitAfterLit == TRUE
=============================================================================
