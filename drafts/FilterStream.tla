---------------------------- MODULE FilterStream ----------------------------
(* DRAFT: streaming behaviour of a BCJ-style filter (filter/bcj.rs BCJWriter::write and the
   pos discipline of the arch coders). A byte is "p" (plain) or "b" (start of a K-byte branch
   instruction); converting a branch at absolute position a yields <<"c", a>>. *)
EXTENDS Naturals, Sequences, TLC
CONSTANTS K, N, Buffered   \* Buffered = TRUE: intended writer (tail carried over, finish flushes)

Streams == [1..N -> {"p", "b"}]

RECURSIVE Code(_, _, _)
\* code(buf, pos0, i): returns <<converted prefix as sequence, processed count>> scanning from index i (1-based)
Code(buf, pos0, i) ==
  IF i + K - 1 > Len(buf) THEN <<<<>>, i - 1>>
  ELSE IF buf[i] = "b"
         THEN LET r == Code(buf, pos0, i + K)
              IN <<<< <<"c", pos0 + i - 1>> >> \o [j \in 1..K-1 |-> "t"] \o r[1], r[2]>>
         ELSE LET r == Code(buf, pos0, i + 1) IN <<<<buf[i]>> \o r[1], r[2]>>

OneShot(s) == LET r == Code(s, 0, 1) IN r[1] \o SubSeq(s, r[2] + 1, Len(s))

VARIABLES s, fed, pos, carry, out, done
vars == <<s, fed, pos, carry, out, done>>
Init == s \in Streams /\ fed = 0 /\ pos = 0 /\ carry = <<>> /\ out = <<>> /\ done = FALSE

Write(n) ==
  /\ ~done /\ n \in 1..(N - fed)
  /\ LET chunk == SubSeq(s, fed + 1, fed + n)
         buf == IF Buffered THEN carry \o chunk ELSE chunk
         r == Code(buf, pos, 1)
         tail == SubSeq(buf, r[2] + 1, Len(buf))
     IN /\ pos' = pos + r[2]
        /\ IF Buffered THEN out' = out \o r[1] /\ carry' = tail
                       ELSE out' = out \o r[1] \o tail /\ carry' = <<>>   \* as built: tail forwarded raw, pos not advanced for it
  /\ fed' = fed + n /\ UNCHANGED <<s, done>>

Finish == /\ ~done /\ fed = N /\ out' = out \o carry /\ carry' = <<>> /\ done' = TRUE /\ UNCHANGED <<s, fed, pos>>
Next == (\E n \in 1..N : Write(n)) \/ Finish
Spec == Init /\ [][Next]_vars

PartitionIndependent == done => out = OneShot(s)
=============================================================================
