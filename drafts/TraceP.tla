---------------------------- MODULE TraceP ----------------------------
EXTENDS MtReaderP, Json, IOUtils, Integers
Rec == ndJsonDeserialize(IOEnv.TRACE)
VARIABLE l
tvars == <<vars, l>>
Ev == Rec[l]
Is(t, op, o) == l <= Len(Rec) /\ Ev.t = t /\ Ev.op = op /\ Ev.o = o
Consume == l' = l + 1
Silent == l' = l
\* object ids in creation order: mutex 0 = queue, 1 = error store; condvar 0; atomic 0 = closed, 1 = shutdown, 2 = active; channel 0
TInit == Init /\ l = 1 /\ TLCSet(1, 1)

CoordEv ==
  \/ Is(0, "Lock", 1)   /\ ((nextRet \notin ooo /\ CL0) \/ CE1 \/ CSE1)
  \/ Is(0, "Unlock", 1) /\ (CL1u \/ CE2 \/ CSE2)
  \/ Is(0, "TryRecv", 0) /\ CR1
  \/ Is(0, "Recv", 0) /\ CRecv
  \/ Is(0, "Lock", 0)   /\ (CR2 \/ \E v \in Variants : CSLock(v) \/ CSLen(v))
  \/ Is(0, "Unlock", 0) /\ (CR2u \/ \E v \in Variants : CSUnlock(v) \/ CSLenU(v))
  \/ Is(0, "ALoad", 0)  /\ (\E v \in Variants : CSLoad(v))
  \/ Is(0, "NotifyOne", 0) /\ (\E v \in Variants : CSNotify(v))
  \/ Is(0, "ALoad", 2)  /\ (\E v \in Variants : CSAct(v))
  \/ (l <= Len(Rec) /\ Ev.t = 0 /\ Ev.op = "Spawn" /\ (CNew \/ \E v \in Variants : CSSpawn(v)) /\ spawned' = Ev.o)
  \/ Is(0, "AStore", 1) /\ (CDrop1 \/ CSE3)
  \/ Is(0, "AStore", 0) /\ CDrop2
  \/ Is(0, "NotifyAll", 0) /\ CDrop3
  \/ Is(0, "DropReceiver", 0) /\ CDrop4
  \/ Is(0, "DropSender", 0) /\ CDrop5

WorkerEv(w) ==
  \/ Is(w, "ALoad", 1) /\ WTop(w)
  \/ Is(w, "Lock", 0) /\ WLock(w)
  \/ Is(w, "Unlock", 0) /\ (WGotUnlock(w) \/ WNoneUnlock(w))
  \/ Is(w, "ALoad", 0) /\ WChk(w)
  \/ Is(w, "CvWait", 0) /\ WWait(w)
  \/ Is(w, "CvWake", 0) /\ WWake(w)
  \/ (Is(w, "AAdd", 2) /\ Ev.v = 1 /\ WInc(w))
  \/ (Is(w, "AAdd", 2) /\ Ev.v # 1 /\ WDec(w))
  \/ Is(w, "Send", 0) /\ WSend(w)
  \/ Is(w, "Lock", 1) /\ WEsLock(w)
  \/ Is(w, "Unlock", 1) /\ WEsUnlock(w)
  \/ Is(w, "AStore", 1) /\ WShut(w)
  \/ Is(w, "DropSender", 0) /\ WDropTx(w)
  \/ Is(w, "Exit", -1) /\ WExit(w)

TNext ==
  \/ (Silent /\ (CCall \/ (nextRet \in ooo /\ CL0) \/ CRetEof))
  \/ (Consume /\ (CoordEv \/ \E w \in Workers : WorkerEv(w)))
  \/ (Consume /\ l <= Len(Rec) /\ (Ev.op = "Start" \/ (Ev.op = "Exit" /\ Ev.t = 0)) /\ UNCHANGED vars)

TSpec == TInit /\ [][TNext]_tvars
Track == IF l > TLCGet(1) THEN TLCSet(1, l) ELSE TRUE
Accepted == IF TLCGet(1) = Len(Rec) + 1 THEN TRUE
            ELSE Print(<<"REJECTED after event", TLCGet(1) - 1, "next", Rec[TLCGet(1)]>>, FALSE)
=============================================================================
