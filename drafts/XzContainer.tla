---------------------------- MODULE XzContainer ----------------------------
(* DRAFT: XZ container, writer (xz/writer.rs) and reader (xz/reader.rs) over abstract records.
   Sizes are small naturals; compressed payload size of a block is nondeterministic. *)
EXTENDS Naturals, Sequences, TLC

CONSTANTS CheckSize,        \* 0, 4, 8 or 32
          BlockSize,        \* 0 = unset, else max uncompressed bytes per block (already >= dict)
          MaxWrite, N,      \* caller writes N bytes in calls of 1..MaxWrite
          CSizes,           \* candidate compressed payload sizes, e.g. {1,2,3,4}
          FixIndexHeader,   \* unpadded size includes the block header
          FixEmpty,         \* finish() without a block emits no block/record
          FixBlockClamp     \* write() clamps to the space left in the block

HSize == 12   \* block header with one LZMA2 filter
SHSize == 12
Pad4(n) == (4 - (n % 4)) % 4

VARIABLES file,      \* produced records
          hdr, blockOpen, blockU, startPos, written, recs, total, finished

vars == <<file, hdr, blockOpen, blockU, startPos, written, recs, total, finished>>

Init == /\ file = <<>> /\ hdr = FALSE /\ blockOpen = FALSE /\ blockU = 0 /\ startPos = 0
        /\ written = 0 /\ recs = <<>> /\ total = 0 /\ finished = FALSE

Emit(f, r) == Append(f, r)

\* pieces of the writer, as functions over a state record s
S0 == [file |-> file, hdr |-> hdr, open |-> blockOpen, bu |-> blockU, sp |-> startPos, w |-> written, recs |-> recs]

WriteSH(s) == IF s.hdr THEN s ELSE [s EXCEPT !.file = Emit(s.file, [k |-> "SH"]), !.hdr = TRUE, !.w = s.w + SHSize]

Prepare(s) ==   \* write_block_header; current_block_start_pos
  LET sp == IF FixIndexHeader THEN s.w ELSE s.w + HSize
  IN [s EXCEPT !.file = Emit(s.file, [k |-> "BH", size |-> HSize]), !.w = s.w + HSize, !.sp = sp, !.open = TRUE, !.bu = 0]

\* finish_current_block with a chosen compressed payload size c (c = 0 when no chain exists)
FinishBlock(s, c) ==
  LET w1 == s.w + c
      comp == w1 - s.sp                      \* block_compressed_size as the code computes it
      pad == Pad4(comp)
      f1 == IF c > 0 \/ s.open THEN Emit(s.file, [k |-> "Data", csize |-> c, usize |-> s.bu]) ELSE s.file
      f2 == IF pad > 0 THEN Emit(f1, [k |-> "Pad", n |-> pad]) ELSE f1
      f3 == Emit(f2, [k |-> "Check", n |-> CheckSize])
  IN [s EXCEPT !.file = f3, !.w = w1 + pad + CheckSize,
               !.recs = Append(s.recs, [unpadded |-> comp + CheckSize, usize |-> s.bu]),
               !.open = FALSE, !.bu = 0]

Install(s) == /\ file' = s.file /\ hdr' = s.hdr /\ blockOpen' = s.open /\ blockU' = s.bu
              /\ startPos' = s.sp /\ written' = s.w /\ recs' = s.recs

\* one iteration of write()'s loop for `rem` remaining bytes; returns <<state, consumed>>
Write ==
  /\ ~finished /\ total < N
  /\ \E n \in 1..MaxWrite, c \in CSizes :
       /\ n <= N - total
       /\ LET s1 == WriteSH(S0)
              needFinish == BlockSize > 0 /\ s1.bu >= BlockSize
              s2 == IF needFinish THEN FinishBlock(s1, c) ELSE s1
              s3 == IF s2.bu = 0 THEN Prepare(s2) ELSE s2
              room == IF BlockSize > 0 /\ FixBlockClamp THEN BlockSize - s3.bu ELSE n
              take == IF n < room THEN n ELSE room
              s4 == [s3 EXCEPT !.bu = s3.bu + take]
          IN Install(s4) /\ total' = total + take
  /\ UNCHANGED finished

Finish ==
  /\ ~finished /\ total = N
  /\ \E c \in CSizes :
       LET s1 == WriteSH(S0)
           s2 == IF FixEmpty /\ ~s1.open THEN s1 ELSE FinishBlock(s1, IF s1.open THEN c ELSE 0)
           idx == [k |-> "Index", recs |-> s2.recs]
           s3 == [s2 EXCEPT !.file = Emit(Emit(s2.file, idx), [k |-> "Footer"])]
       IN Install(s3)
  /\ finished' = TRUE /\ UNCHANGED total

Next == Write \/ Finish
Spec == Init /\ [][Next]_vars

\* ---------------------------------------------------------------- format rules (xz-file-format 1.x)
RECURSIVE Blocks(_, _)
\* parse records after SH: returns sequence of [hsize, csize, usize, pad, check] or "bad"
Blocks(f, i) ==
  IF i > Len(f) THEN <<>>
  ELSE IF f[i].k = "BH" /\ i + 1 <= Len(f) /\ f[i+1].k = "Data"
    THEN LET hasPad == i + 2 <= Len(f) /\ f[i+2].k = "Pad"
             j == IF hasPad THEN i + 3 ELSE i + 2
         IN IF j <= Len(f) /\ f[j].k = "Check"
              THEN <<[hsize |-> f[i].size, csize |-> f[i+1].csize, usize |-> f[i+1].usize,
                      pad |-> IF hasPad THEN f[i+2].n ELSE 0]>> \o Blocks(f, j + 1)
              ELSE <<[bad |-> TRUE]>>
    ELSE IF f[i].k = "Index" THEN <<>> ELSE <<[bad |-> TRUE]>>

IndexOf(f) == LET I == {i \in 1..Len(f) : f[i].k = "Index"} IN IF I = {} THEN <<>> ELSE f[CHOOSE i \in I : TRUE].recs

WellFormed ==
  finished =>
    LET bs == Blocks(file, 2)
        ix == IndexOf(file)
    IN /\ file[1].k = "SH" /\ file[Len(file)].k = "Footer"
       /\ \A i \in 1..Len(bs) : "bad" \notin DOMAIN bs[i]
       /\ Len(ix) = Len(bs)
       /\ \A i \in 1..Len(bs) :
            /\ bs[i].pad = Pad4(bs[i].hsize + bs[i].csize)
            /\ bs[i].csize > 0
            /\ ix[i].unpadded = bs[i].hsize + bs[i].csize + CheckSize
            /\ ix[i].usize = bs[i].usize

SumU == LET bs == Blocks(file, 2) IN
        IF Len(bs) = 0 THEN 0 ELSE IF Len(bs) = 1 THEN bs[1].usize
        ELSE IF Len(bs) = 2 THEN bs[1].usize + bs[2].usize ELSE bs[1].usize + bs[2].usize + bs[3].usize
Content == finished => (Len(Blocks(file, 2)) <= 3 => SumU = N)
SizeLimit == (finished /\ BlockSize > 0) => \A i \in 1..Len(Blocks(file, 2)) : Blocks(file, 2)[i].usize <= BlockSize
=============================================================================
