SPECIFICATION Spec
CONSTANTS MaxWorkers = 2
 Chunks <- C0
 Terminated = FALSE
 BadUnits = {}
 DropAfter = 99
 FixCloseLock = TRUE
 FixEofError = FALSE
INVARIANTS InOrder NoFalseSuccess WorkerBound NoDeadlock
PROPERTIES CallsReturn WorkersReleased
CHECK_DEADLOCK FALSE
