---- MODULE MCT ----
EXTENDS TraceP
C3I == <<"I","I","I">>
====
