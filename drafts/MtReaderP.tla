---------------------------- MODULE MtReaderP ----------------------------
(* DRAFT, primitive grain: one action per operation of the deterministic runtime.
   LZMA2ReaderMT (src/lzma2_reader_mt.rs) + WorkStealingQueue (src/work_queue.rs).
   Objects: Q = queue mutex, CV = condvar, CLOSED/SHUT/ACT = atomics, ES = error-store mutex,
   CH = result channel (coordinator keeps one Sender). *)
EXTENDS Naturals, Sequences, FiniteSets, TLC

CONSTANTS MaxWorkers,
          Chunks,        \* sequence of chunk kinds: "I" = independent (dict reset), "D" = dependent
          Terminated,    \* 0x00 control byte follows the chunks
          BadUnits,      \* unit sequence numbers whose decode fails
          DropAfter,     \* 99: drop only after end/err; k: drop after k chunks were returned
          FixCloseLock, FixEofError

Workers == 1..MaxWorkers
NoneV == 99

VARIABLES q, qOwner, cvWait, notified, closed,     \* queue
          chan, senders, rxAlive,                   \* channel
          esOwner, errStore, shutdown, active,      \* shared
          cpc, cstate, nextDisp, nextRet, lastSeq, ooo, inPos, curLen, spawned, tmp,  \* coordinator
          delivered, result, returned,
          wpc, witem                                \* workers

vars == <<q, qOwner, cvWait, notified, closed, chan, senders, rxAlive, esOwner, errStore, shutdown, active,
          cpc, cstate, nextDisp, nextRet, lastSeq, ooo, inPos, curLen, spawned, tmp, delivered, result, returned,
          wpc, witem>>

shared == <<q, qOwner, cvWait, notified, closed, chan, senders, rxAlive, esOwner, errStore, shutdown, active>>
coord  == <<cpc, cstate, nextDisp, nextRet, lastSeq, ooo, inPos, curLen, spawned, tmp, delivered, result, returned>>

Init ==
  /\ q = <<>> /\ qOwner = 0 /\ cvWait = {} /\ notified = {} /\ closed = FALSE
  /\ chan = <<>> /\ senders = 1 /\ rxAlive = TRUE
  /\ esOwner = 0 /\ errStore = "none" /\ shutdown = FALSE /\ active = 0
  /\ cpc = "new" /\ cstate = "Reading" /\ nextDisp = 0 /\ nextRet = 0 /\ lastSeq = NoneV
  /\ ooo = {} /\ inPos = 0 /\ curLen = 0 /\ spawned = 0 /\ tmp = 0
  /\ delivered = <<>> /\ result = "none" /\ returned = 0
  /\ wpc = [w \in Workers |-> "unborn"] /\ witem = [w \in Workers |-> NoneV]

C == 100  \* coordinator thread id for lock ownership

\* ------------------------------------------------------------------ coordinator helpers
Goto(l) == cpc' = l
Ret(r) == /\ cpc' = "idle" /\ result' = r
Deliver(seq) == /\ nextRet' = nextRet + 1 /\ delivered' = Append(delivered, seq)
                /\ returned' = returned + 1 /\ Ret("chunk")

\* Spawn(k): thread::spawn + result_tx.clone()
DoSpawn == /\ spawned' = spawned + 1 /\ senders' = senders + 1
           /\ wpc' = [wpc EXCEPT ![spawned + 1] = "top"]

CNew ==  \* LZMA2ReaderMT::new -> spawn_worker_thread
  /\ cpc = "new" /\ DoSpawn /\ Goto("idle")
  /\ UNCHANGED <<q, qOwner, cvWait, notified, closed, chan, rxAlive, esOwner, errStore, shutdown, active,
                 cstate, nextDisp, nextRet, lastSeq, ooo, inPos, curLen, tmp, delivered, result, returned, witem>>

CCall ==  \* read() with an exhausted current chunk -> get_next_uncompressed_chunk
  /\ cpc = "idle" /\ result \notin {"eof", "err"} /\ (DropAfter = 99 \/ returned < DropAfter)
  /\ Goto("L0")
  /\ UNCHANGED <<shared, cstate, nextDisp, nextRet, lastSeq, ooo, inPos, curLen, spawned, tmp, delivered, result, returned, wpc, witem>>

CL0Hit ==  \* out_of_order_chunks.remove(next) hit: silent (no runtime op)
  /\ cpc = "L0" /\ nextRet \in ooo
  /\ ooo' = ooo \ {nextRet} /\ Deliver(nextRet)
  /\ UNCHANGED <<shared, cstate, nextDisp, lastSeq, inPos, curLen, spawned, tmp, wpc, witem>>
CL0Lock ==  \* miss: Lock(ES)
  /\ cpc = "L0" /\ nextRet \notin ooo
  /\ esOwner = 0 /\ esOwner' = C /\ Goto("L1u")
  /\ UNCHANGED <<q, qOwner, cvWait, notified, closed, chan, senders, rxAlive, errStore, shutdown, active,
                 cstate, nextDisp, nextRet, lastSeq, ooo, inPos, curLen, spawned, tmp, delivered, result, returned, wpc, witem>>
CL0 == CL0Hit \/ CL0Lock

CL1u ==  \* take(); Unlock(ES); then dispatch on state (no op)
  /\ cpc = "L1u" /\ esOwner' = 0
  /\ IF errStore # "none"
       THEN /\ errStore' = "none" /\ cstate' = "Error" /\ Ret("err")
       ELSE /\ UNCHANGED <<errStore, result>>
            /\ CASE cstate = "Reading"  -> Goto("R1") /\ UNCHANGED cstate
                 [] cstate = "Draining" -> IF lastSeq # NoneV /\ nextRet > lastSeq
                                             THEN cstate' = "Finished" /\ Goto("L0")
                                             ELSE Goto("RECV") /\ UNCHANGED cstate
                 [] cstate = "Finished" -> Goto("retEof") /\ UNCHANGED cstate
                 [] cstate = "Error"    -> Goto("E1") /\ UNCHANGED cstate
  /\ UNCHANGED <<q, qOwner, cvWait, notified, closed, chan, senders, rxAlive, shutdown, active,
                 nextDisp, nextRet, lastSeq, ooo, inPos, curLen, spawned, tmp, delivered, returned, wpc, witem>>

CRetEof == /\ cpc = "retEof" /\ Ret("eof")
           /\ UNCHANGED <<shared, cstate, nextDisp, nextRet, lastSeq, ooo, inPos, curLen, spawned, tmp, delivered, returned, wpc, witem>>

\* State::Error arm: Lock(ES); take; Unlock(ES); return Err
CE1 == /\ cpc = "E1" /\ esOwner = 0 /\ esOwner' = C /\ Goto("E2")
       /\ UNCHANGED <<q, qOwner, cvWait, notified, closed, chan, senders, rxAlive, errStore, shutdown, active,
                      cstate, nextDisp, nextRet, lastSeq, ooo, inPos, curLen, spawned, tmp, delivered, result, returned, wpc, witem>>
CE2 == /\ cpc = "E2" /\ esOwner' = 0 /\ errStore' = "none" /\ Ret("err")
       /\ UNCHANGED <<q, qOwner, cvWait, notified, closed, chan, senders, rxAlive, shutdown, active,
                      cstate, nextDisp, nextRet, lastSeq, ooo, inPos, curLen, spawned, tmp, delivered, returned, wpc, witem>>

GotResult(seq, back) ==
  IF seq = nextRet THEN Deliver(seq) /\ UNCHANGED ooo
  ELSE /\ ooo' = ooo \cup {seq} /\ Goto(back) /\ UNCHANGED <<nextRet, delivered, result, returned>>

CR1 ==  \* TryRecv(CH)
  /\ cpc = "R1"
  /\ IF chan # <<>>
       THEN /\ chan' = Tail(chan) /\ GotResult(Head(chan), "L0") /\ UNCHANGED cstate
       ELSE /\ UNCHANGED <<chan, ooo, nextRet, delivered, result, returned>>
            /\ IF senders = 0 THEN cstate' = "Draining" /\ Goto("L0") ELSE Goto("R2") /\ UNCHANGED cstate
  /\ UNCHANGED <<q, qOwner, cvWait, notified, closed, senders, rxAlive, esOwner, errStore, shutdown, active,
                 nextDisp, lastSeq, inPos, curLen, spawned, tmp, wpc, witem>>

CR2 ==  \* work_queue.len(): Lock(Q)
  /\ cpc = "R2" /\ qOwner = 0 /\ qOwner' = C /\ tmp' = Len(q) /\ Goto("R2u")
  /\ UNCHANGED <<q, cvWait, notified, closed, chan, senders, rxAlive, esOwner, errStore, shutdown, active,
                 cstate, nextDisp, nextRet, lastSeq, ooo, inPos, curLen, spawned, delivered, result, returned, wpc, witem>>

\* Unlock(Q); then read_and_dispatch_chunk up to its first runtime op (reads from `inner` are invisible)
NextChunkKind == IF inPos < Len(Chunks) THEN Chunks[inPos + 1] ELSE (IF Terminated THEN "T" ELSE "EOF")
CR2u ==
  /\ cpc = "R2u" /\ qOwner' = 0
  /\ IF tmp >= 4 THEN Goto("RECV") /\ UNCHANGED <<inPos, curLen, lastSeq, cstate>>
     ELSE CASE NextChunkKind = "D" \/ (NextChunkKind = "I" /\ curLen = 0) ->
                 \* chunk appended to the current work unit, Ok(true)
                 /\ inPos' = inPos + 1 /\ curLen' = curLen + 1 /\ Goto("L0") /\ UNCHANGED <<lastSeq, cstate>>
            [] NextChunkKind = "I" /\ curLen > 0 ->
                 \* dispatch current unit first, then start a new one with this chunk
                 /\ Goto("S_load_I") /\ UNCHANGED <<inPos, curLen, lastSeq, cstate>>
            [] NextChunkKind = "T" ->
                 /\ inPos' = inPos + 1 /\ curLen' = curLen + 1 /\ Goto("S_load_T") /\ UNCHANGED <<lastSeq, cstate>>
            [] NextChunkKind = "EOF" ->
                 IF FixEofError
                   THEN Goto("SE1") /\ UNCHANGED <<inPos, curLen, lastSeq, cstate>>
                   ELSE IF curLen > 0 THEN Goto("S_load_E") /\ UNCHANGED <<inPos, curLen, lastSeq, cstate>>
                        ELSE /\ lastSeq' = (IF nextDisp = 0 THEN 0 ELSE nextDisp - 1)
                             /\ cstate' = "Draining" /\ Goto("L0") /\ UNCHANGED <<inPos, curLen>>
  /\ UNCHANGED <<q, cvWait, notified, closed, chan, senders, rxAlive, esOwner, errStore, shutdown, active,
                 nextDisp, nextRet, ooo, spawned, tmp, delivered, result, returned, wpc, witem>>

\* send_work_unit, variant v in {"I","T","E"} decides what follows
SendPc(p, v) == p \o "_" \o v
CSLoad(v) ==  \* push(): ALoad(CLOSED)
  /\ cpc = SendPc("S_load", v) /\ Goto(SendPc("S_lock", v))
  /\ UNCHANGED <<shared, cstate, nextDisp, nextRet, lastSeq, ooo, inPos, curLen, spawned, tmp, delivered, result, returned, wpc, witem>>
CSLock(v) ==  \* Lock(Q) + push_back
  /\ cpc = SendPc("S_lock", v) /\ qOwner = 0 /\ qOwner' = C /\ q' = Append(q, nextDisp) /\ Goto(SendPc("S_unlock", v))
  /\ UNCHANGED <<cvWait, notified, closed, chan, senders, rxAlive, esOwner, errStore, shutdown, active,
                 cstate, nextDisp, nextRet, lastSeq, ooo, inPos, curLen, spawned, tmp, delivered, result, returned, wpc, witem>>
CSUnlock(v) ==
  /\ cpc = SendPc("S_unlock", v) /\ qOwner' = 0 /\ Goto(SendPc("S_notify", v))
  /\ UNCHANGED <<q, cvWait, notified, closed, chan, senders, rxAlive, esOwner, errStore, shutdown, active,
                 cstate, nextDisp, nextRet, lastSeq, ooo, inPos, curLen, spawned, tmp, delivered, result, returned, wpc, witem>>
CSNotify(v) ==  \* NotifyOne(CV): FIFO choice left nondeterministic
  /\ cpc = SendPc("S_notify", v)
  /\ IF cvWait = {} THEN UNCHANGED <<cvWait, notified>>
     ELSE \E w \in cvWait : cvWait' = cvWait \ {w} /\ notified' = notified \cup {w}
  /\ Goto(SendPc("S_act", v))
  /\ UNCHANGED <<q, qOwner, closed, chan, senders, rxAlive, esOwner, errStore, shutdown, active,
                 cstate, nextDisp, nextRet, lastSeq, ooo, inPos, curLen, spawned, tmp, delivered, result, returned, wpc, witem>>
CSAct(v) ==  \* ALoad(ACT)
  /\ cpc = SendPc("S_act", v) /\ tmp' = active /\ Goto(SendPc("S_len", v))
  /\ UNCHANGED <<shared, cstate, nextDisp, nextRet, lastSeq, ooo, inPos, curLen, spawned, delivered, result, returned, wpc, witem>>
CSLen(v) ==  \* Lock(Q) for len()
  /\ cpc = SendPc("S_len", v) /\ qOwner = 0 /\ qOwner' = C
  /\ tmp' = (IF Len(q) > 0 /\ tmp = spawned /\ spawned < MaxWorkers THEN 1 ELSE 0)
  /\ Goto(SendPc("S_lenu", v))
  /\ UNCHANGED <<q, cvWait, notified, closed, chan, senders, rxAlive, esOwner, errStore, shutdown, active,
                 cstate, nextDisp, nextRet, lastSeq, ooo, inPos, curLen, spawned, delivered, result, returned, wpc, witem>>
AfterSend(v) ==
  CASE v = "I" -> /\ inPos' = inPos + 1 /\ curLen' = 1 /\ Goto("L0") /\ UNCHANGED <<lastSeq, cstate>>
    [] OTHER   -> /\ curLen' = 0 /\ lastSeq' = nextDisp /\ cstate' = "Draining" /\ Goto("L0") /\ UNCHANGED inPos
CSLenU(v) ==  \* Unlock(Q); maybe Spawn next
  /\ cpc = SendPc("S_lenu", v) /\ qOwner' = 0
  /\ IF tmp = 1 THEN Goto(SendPc("S_spawn", v)) /\ UNCHANGED <<nextDisp, inPos, curLen, lastSeq, cstate>>
     ELSE nextDisp' = nextDisp + 1 /\ AfterSend(v)
  /\ UNCHANGED <<q, cvWait, notified, closed, chan, senders, rxAlive, esOwner, errStore, shutdown, active,
                 nextRet, ooo, spawned, tmp, delivered, result, returned, wpc, witem>>
CSSpawn(v) ==
  /\ cpc = SendPc("S_spawn", v) /\ DoSpawn /\ nextDisp' = nextDisp + 1 /\ AfterSend(v)
  /\ UNCHANGED <<q, qOwner, cvWait, notified, closed, chan, rxAlive, esOwner, errStore, shutdown, active,
                 nextRet, ooo, tmp, delivered, result, returned, witem>>

\* repaired EOF handling: set_error(UnexpectedEof): Lock(ES); Unlock(ES); AStore(SHUT)
CSE1 == /\ cpc = "SE1" /\ esOwner = 0 /\ esOwner' = C /\ Goto("SE2")
        /\ UNCHANGED <<q, qOwner, cvWait, notified, closed, chan, senders, rxAlive, errStore, shutdown, active,
                       cstate, nextDisp, nextRet, lastSeq, ooo, inPos, curLen, spawned, tmp, delivered, result, returned, wpc, witem>>
CSE2 == /\ cpc = "SE2" /\ esOwner' = 0 /\ errStore' = (IF errStore = "none" THEN "eof" ELSE errStore) /\ Goto("SE3")
        /\ UNCHANGED <<q, qOwner, cvWait, notified, closed, chan, senders, rxAlive, shutdown, active,
                       cstate, nextDisp, nextRet, lastSeq, ooo, inPos, curLen, spawned, tmp, delivered, result, returned, wpc, witem>>
CSE3 == /\ cpc = "SE3" /\ shutdown' = TRUE /\ cstate' = "Error" /\ Goto("L0")
        /\ UNCHANGED <<q, qOwner, cvWait, notified, closed, chan, senders, rxAlive, esOwner, errStore, active,
                       nextDisp, nextRet, lastSeq, ooo, inPos, curLen, spawned, tmp, delivered, result, returned, wpc, witem>>

CRecv ==  \* Recv(CH), blocking
  /\ cpc = "RECV" /\ (chan # <<>> \/ senders = 0)
  /\ IF chan # <<>>
       THEN /\ chan' = Tail(chan) /\ GotResult(Head(chan), "L0") /\ UNCHANGED cstate
       ELSE /\ cstate' = (IF cstate = "Reading" THEN "Draining" ELSE "Finished") /\ Goto("L0")
            /\ UNCHANGED <<chan, ooo, nextRet, delivered, result, returned>>
  /\ UNCHANGED <<q, qOwner, cvWait, notified, closed, senders, rxAlive, esOwner, errStore, shutdown, active,
                 nextDisp, lastSeq, inPos, curLen, spawned, tmp, wpc, witem>>

\* Drop: AStore(SHUT); close(): AStore(CLOSED), NotifyAll(CV); DropReceiver; DropSender
CDrop1 == /\ cpc = "idle" /\ (result \in {"eof", "err"} \/ (DropAfter # 99 /\ returned >= DropAfter))
          /\ shutdown' = TRUE /\ Goto("X2")
          /\ UNCHANGED <<q, qOwner, cvWait, notified, closed, chan, senders, rxAlive, esOwner, errStore, active,
                         cstate, nextDisp, nextRet, lastSeq, ooo, inPos, curLen, spawned, tmp, delivered, result, returned, wpc, witem>>
CDrop2 == /\ cpc = "X2" /\ (FixCloseLock => qOwner = 0)
          /\ closed' = TRUE /\ qOwner' = (IF FixCloseLock THEN C ELSE qOwner) /\ Goto("X3")
          /\ UNCHANGED <<q, cvWait, notified, chan, senders, rxAlive, esOwner, errStore, shutdown, active,
                         cstate, nextDisp, nextRet, lastSeq, ooo, inPos, curLen, spawned, tmp, delivered, result, returned, wpc, witem>>
CDrop3 == /\ cpc = "X3" /\ notified' = notified \cup cvWait /\ cvWait' = {}
          /\ qOwner' = (IF FixCloseLock THEN 0 ELSE qOwner) /\ Goto("X4")
          /\ UNCHANGED <<q, closed, chan, senders, rxAlive, esOwner, errStore, shutdown, active,
                         cstate, nextDisp, nextRet, lastSeq, ooo, inPos, curLen, spawned, tmp, delivered, result, returned, wpc, witem>>
CDrop4 == /\ cpc = "X4" /\ rxAlive' = FALSE /\ Goto("X5")
          /\ UNCHANGED <<q, qOwner, cvWait, notified, closed, chan, senders, esOwner, errStore, shutdown, active,
                         cstate, nextDisp, nextRet, lastSeq, ooo, inPos, curLen, spawned, tmp, delivered, result, returned, wpc, witem>>
CDrop5 == /\ cpc = "X5" /\ senders' = senders - 1 /\ Goto("gone")
          /\ UNCHANGED <<q, qOwner, cvWait, notified, closed, chan, rxAlive, esOwner, errStore, shutdown, active,
                         cstate, nextDisp, nextRet, lastSeq, ooo, inPos, curLen, spawned, tmp, delivered, result, returned, wpc, witem>>

Variants == {"I", "T", "E"}
CoordStep ==
  \/ CNew \/ CCall \/ CL0Hit \/ CL0Lock \/ CL1u \/ CRetEof \/ CE1 \/ CE2 \/ CR1 \/ CR2 \/ CR2u \/ CRecv
  \/ CSE1 \/ CSE2 \/ CSE3 \/ CDrop1 \/ CDrop2 \/ CDrop3 \/ CDrop4 \/ CDrop5
  \/ \E v \in Variants : CSLoad(v) \/ CSLock(v) \/ CSUnlock(v) \/ CSNotify(v) \/ CSAct(v) \/ CSLen(v) \/ CSLenU(v) \/ CSSpawn(v)

\* ------------------------------------------------------------------ workers
NUnits == Cardinality({i \in 1..Len(Chunks) : Chunks[i] = "I" \/ i = 1}) + (IF Len(Chunks) = 0 /\ Terminated THEN 1 ELSE 0)
IsBad(u) == u \in BadUnits \/ (~Terminated /\ u = NUnits - 1)
WU == UNCHANGED coord
WGo(w, l) == wpc' = [wpc EXCEPT ![w] = l]

WTop(w) ==  \* ALoad(SHUT)
  /\ wpc[w] = "top" /\ WGo(w, IF shutdown THEN "dropTx" ELSE "lock")
  /\ UNCHANGED <<shared, witem>> /\ WU
WLock(w) ==  \* Lock(Q); pop_front attempt
  /\ wpc[w] = "lock" /\ qOwner = 0 /\ qOwner' = w
  /\ IF q # <<>> THEN witem' = [witem EXCEPT ![w] = Head(q)] /\ q' = Tail(q) /\ WGo(w, "gotUnlock")
                 ELSE WGo(w, "chk") /\ UNCHANGED <<q, witem>>
  /\ UNCHANGED <<cvWait, notified, closed, chan, senders, rxAlive, esOwner, errStore, shutdown, active>> /\ WU
WGotUnlock(w) ==
  /\ wpc[w] = "gotUnlock" /\ qOwner' = 0 /\ WGo(w, "inc")
  /\ UNCHANGED <<q, cvWait, notified, closed, chan, senders, rxAlive, esOwner, errStore, shutdown, active, witem>> /\ WU
WChk(w) ==  \* ALoad(CLOSED) holding Q
  /\ wpc[w] = "chk" /\ WGo(w, IF closed THEN "noneUnlock" ELSE "wait")
  /\ UNCHANGED <<shared, witem>> /\ WU
WNoneUnlock(w) ==
  /\ wpc[w] = "noneUnlock" /\ qOwner' = 0 /\ WGo(w, "dropTx")
  /\ UNCHANGED <<q, cvWait, notified, closed, chan, senders, rxAlive, esOwner, errStore, shutdown, active, witem>> /\ WU
WWait(w) ==  \* CvWait
  /\ wpc[w] = "wait" /\ qOwner' = 0 /\ cvWait' = cvWait \cup {w} /\ notified' = notified \ {w} /\ WGo(w, "sleep")
  /\ UNCHANGED <<q, closed, chan, senders, rxAlive, esOwner, errStore, shutdown, active, witem>> /\ WU
WWake(w) ==  \* CvWake: notified and mutex free; then pop attempt again
  /\ wpc[w] = "sleep" /\ w \in notified /\ qOwner = 0 /\ qOwner' = w /\ notified' = notified \ {w}
  /\ IF q # <<>> THEN witem' = [witem EXCEPT ![w] = Head(q)] /\ q' = Tail(q) /\ WGo(w, "gotUnlock")
                 ELSE WGo(w, "chk") /\ UNCHANGED <<q, witem>>
  /\ UNCHANGED <<cvWait, closed, chan, senders, rxAlive, esOwner, errStore, shutdown, active>> /\ WU
WInc(w) ==  \* AAdd(ACT,+1); decode is local
  /\ wpc[w] = "inc" /\ active' = active + 1 /\ WGo(w, IF IsBad(witem[w]) THEN "decErr" ELSE "send")
  /\ UNCHANGED <<q, qOwner, cvWait, notified, closed, chan, senders, rxAlive, esOwner, errStore, shutdown, witem>> /\ WU
WSend(w) ==  \* Send(CH)
  /\ wpc[w] = "send"
  /\ IF rxAlive THEN chan' = Append(chan, witem[w]) /\ WGo(w, "decOk") ELSE UNCHANGED chan /\ WGo(w, "decExit")
  /\ UNCHANGED <<q, qOwner, cvWait, notified, closed, senders, rxAlive, esOwner, errStore, shutdown, active, witem>> /\ WU
WDec(w) ==  \* AAdd(ACT,-1)
  /\ wpc[w] \in {"decOk", "decExit", "decErr"} /\ active' = active - 1
  /\ WGo(w, CASE wpc[w] = "decOk" -> "top" [] wpc[w] = "decExit" -> "dropTx" [] OTHER -> "esLock")
  /\ UNCHANGED <<q, qOwner, cvWait, notified, closed, chan, senders, rxAlive, esOwner, errStore, shutdown, witem>> /\ WU
WEsLock(w) ==
  /\ wpc[w] = "esLock" /\ esOwner = 0 /\ esOwner' = w /\ WGo(w, "esUnlock")
  /\ errStore' = (IF errStore = "none" THEN "worker" ELSE errStore)
  /\ UNCHANGED <<q, qOwner, cvWait, notified, closed, chan, senders, rxAlive, shutdown, active, witem>> /\ WU
WEsUnlock(w) ==
  /\ wpc[w] = "esUnlock" /\ esOwner' = 0 /\ WGo(w, "shut")
  /\ UNCHANGED <<q, qOwner, cvWait, notified, closed, chan, senders, rxAlive, errStore, shutdown, active, witem>> /\ WU
WShut(w) ==  \* AStore(SHUT)
  /\ wpc[w] = "shut" /\ shutdown' = TRUE /\ WGo(w, "dropTx")
  /\ UNCHANGED <<q, qOwner, cvWait, notified, closed, chan, senders, rxAlive, esOwner, errStore, active, witem>> /\ WU
WDropTx(w) ==  \* DropSender(CH)
  /\ wpc[w] = "dropTx" /\ senders' = senders - 1 /\ WGo(w, "exiting")
  /\ UNCHANGED <<q, qOwner, cvWait, notified, closed, chan, rxAlive, esOwner, errStore, shutdown, active, witem>> /\ WU
WExit(w) ==
  /\ wpc[w] = "exiting" /\ WGo(w, "exit")
  /\ UNCHANGED <<shared, witem>> /\ WU

WorkerStep(w) == WTop(w) \/ WLock(w) \/ WGotUnlock(w) \/ WChk(w) \/ WNoneUnlock(w) \/ WWait(w) \/ WWake(w)
                 \/ WInc(w) \/ WSend(w) \/ WDec(w) \/ WEsLock(w) \/ WEsUnlock(w) \/ WShut(w) \/ WDropTx(w) \/ WExit(w)

Next == CoordStep \/ \E w \in Workers : WorkerStep(w)
Spec == Init /\ [][Next]_vars /\ WF_vars(CoordStep) /\ \A w \in Workers : WF_vars(WorkerStep(w))
SpecSafe == Init /\ [][Next]_vars

\* ------------------------------------------------------------------ properties
InOrder == \A i \in 1..Len(delivered) : delivered[i] = i - 1
NoFalseSuccess == result = "eof" => /\ Len(delivered) = NUnits /\ BadUnits \cap (0..NUnits-1) = {}
                                    /\ (FixEofError => Terminated)
WorkerBound == spawned <= MaxWorkers /\ active <= spawned
NoDeadlock == (~ENABLED Next) => (cpc = "gone" /\ \A w \in Workers : wpc[w] \in {"unborn", "exit"})
CallsReturn == (cpc = "L0") ~> (cpc = "idle")
WorkersReleased == (cpc = "gone") ~> (\A w \in Workers : wpc[w] \in {"unborn", "exit"})
=============================================================================
