SPECIFICATION Spec
CONSTANTS CheckSize = 4
 BlockSize = 0
 MaxWrite = 3
 N = 3
 CSizes = {1,2,3,4}
 FixIndexHeader = FALSE
 FixEmpty = TRUE
 FixBlockClamp = TRUE
INVARIANTS WellFormed Content
CHECK_DEADLOCK FALSE
