SPECIFICATION Spec
CONSTANTS Dists = {1, 2, 3, 5}
 MaxLen = 6
INVARIANTS Agree StateRange
CHECK_DEADLOCK FALSE
