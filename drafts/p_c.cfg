SPECIFICATION Spec
CONSTANTS MaxWorkers = 2
 Chunks <- C2ID
 Terminated = TRUE
 BadUnits = {}
 DropAfter = 99
 FixCloseLock = TRUE
 FixEofError = FALSE
INVARIANTS InOrder NoFalseSuccess WorkerBound NoDeadlock
PROPERTIES CallsReturn WorkersReleased
CHECK_DEADLOCK FALSE
