SPECIFICATION Spec
CONSTANTS MaxWorkers = 3
 Chunks <- C4
 Terminated = TRUE
 BadUnits = {}
 DropAfter = 99
 FixCloseLock = TRUE
 FixEofError = TRUE
INVARIANTS InOrder NoFalseSuccess WorkerBound NoDeadlock
PROPERTIES CallsReturn WorkersReleased
CHECK_DEADLOCK FALSE
