SPECIFICATION Spec
CONSTANTS K = 3
 N = 6
 Buffered = TRUE
INVARIANTS PartitionIndependent
CHECK_DEADLOCK FALSE
