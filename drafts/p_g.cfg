SPECIFICATION Spec
CONSTANTS MaxWorkers = 2
 Chunks <- C3I
 Terminated = FALSE
 BadUnits = {}
 DropAfter = 99
 FixCloseLock = TRUE
 FixEofError = TRUE
INVARIANTS InOrder NoFalseSuccess WorkerBound NoDeadlock
PROPERTIES CallsReturn WorkersReleased
CHECK_DEADLOCK FALSE
