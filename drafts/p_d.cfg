SPECIFICATION Spec
CONSTANTS MaxWorkers = 2
 Chunks <- C3I
 Terminated = TRUE
 BadUnits = {}
 DropAfter = 1
 FixCloseLock = TRUE
 FixEofError = FALSE
INVARIANTS InOrder NoFalseSuccess WorkerBound NoDeadlock
PROPERTIES CallsReturn WorkersReleased
CHECK_DEADLOCK FALSE
