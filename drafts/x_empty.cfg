SPECIFICATION Spec
CONSTANTS CheckSize = 4
 BlockSize = 0
 MaxWrite = 3
 N = 0
 CSizes = {1,2,3,4}
 FixIndexHeader = TRUE
 FixEmpty = FALSE
 FixBlockClamp = TRUE
INVARIANTS WellFormed Content
CHECK_DEADLOCK FALSE
