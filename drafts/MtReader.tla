---------------------------- MODULE MtReader ----------------------------
(* DRAFT (scratch) - LZMA2ReaderMT / LZIPReaderMT coordinator + workers + work queue.
   One action per synchronisation operation / critical section.
   Variant flags select as-built vs. repaired behaviour. *)
EXTENDS Naturals, Sequences, FiniteSets, TLC

CONSTANTS
    MaxWorkers,      \* clamp(num_workers,1,256)
    NUnits,          \* number of work units the input yields (0..)
    BadUnits,        \* subset of 0..NUnits-1 whose decode fails in a worker
    Terminated,      \* TRUE: stream ends with 0x00 control byte; FALSE: EOF instead
    FixCloseLock,    \* close() takes the queue mutex
    FixWakeOnError,  \* failing worker wakes the coordinator
    FixEofError,     \* EOF instead of terminator is an error
    DropAt           \* -1: never drop early; k>=0: caller drops after k read() returns

Workers == 1..MaxWorkers
None == 99

VARIABLES
    \* work queue
    q, qOwner, cvWait, closed,
    \* result channel (coordinator keeps a Sender: never disconnects while reader alive)
    chan, rxAlive,
    \* shared flags
    errStore, shutdown, active,
    \* coordinator
    cpc, cstate, nextDisp, nextRet, lastSeq, ooo, inPos, spawned, delivered, result, reads,
    \* workers
    wpc, witem

vars == <<q, qOwner, cvWait, closed, chan, rxAlive, errStore, shutdown, active,
          cpc, cstate, nextDisp, nextRet, lastSeq, ooo, inPos, spawned, delivered, result, reads,
          wpc, witem>>

Init ==
    /\ q = <<>> /\ qOwner = 0 /\ cvWait = {} /\ closed = FALSE
    /\ chan = <<>> /\ rxAlive = TRUE
    /\ errStore = "none" /\ shutdown = FALSE /\ active = 0
    /\ cpc = "idle" /\ cstate = "Reading" /\ nextDisp = 0 /\ nextRet = 0 /\ lastSeq = None
    /\ ooo = {} /\ inPos = 0 /\ spawned = 1 /\ delivered = <<>> /\ result = "none" /\ reads = 0
    /\ wpc = [w \in Workers |-> IF w = 1 THEN "top" ELSE "unborn"]
    /\ witem = [w \in Workers |-> None]

\* ---------------------------------------------------------------- caller
CallRead ==
    /\ cpc = "idle" /\ result \notin {"eof", "err"}
    /\ (DropAt = 99 \/ reads < DropAt)
    /\ cpc' = "L0"
    /\ UNCHANGED <<q, qOwner, cvWait, closed, chan, rxAlive, errStore, shutdown, active,
                   cstate, nextDisp, nextRet, lastSeq, ooo, inPos, spawned, delivered, result, reads, wpc, witem>>

Ret(r) == /\ cpc' = "idle" /\ result' = r /\ reads' = reads + 1

\* L0: out-of-order map
CL0 ==
    /\ cpc = "L0"
    /\ IF nextRet \in ooo
         THEN /\ ooo' = ooo \ {nextRet} /\ delivered' = Append(delivered, nextRet)
              /\ nextRet' = nextRet + 1 /\ Ret("chunk")
              /\ UNCHANGED <<errStore, cstate>>
         ELSE /\ cpc' = "L1" /\ UNCHANGED <<ooo, delivered, nextRet, result, reads, errStore, cstate>>
    /\ UNCHANGED <<q, qOwner, cvWait, closed, chan, rxAlive, shutdown, active,
                   nextDisp, lastSeq, inPos, spawned, wpc, witem>>

\* L1: take stored error
CL1 ==
    /\ cpc = "L1"
    /\ IF errStore # "none"
         THEN /\ errStore' = "none" /\ cstate' = "Error" /\ Ret("err")
         ELSE /\ cpc' = "L2" /\ UNCHANGED <<errStore, cstate, result, reads>>
    /\ UNCHANGED <<q, qOwner, cvWait, closed, chan, rxAlive, shutdown, active,
                   nextDisp, nextRet, lastSeq, ooo, inPos, spawned, delivered, wpc, witem>>

\* L2: dispatch on state
CL2 ==
    /\ cpc = "L2"
    /\ CASE cstate = "Reading"  -> cpc' = "R1" /\ UNCHANGED <<result, reads, cstate>>
         [] cstate = "Draining" -> /\ IF lastSeq # None /\ nextRet > lastSeq
                                        THEN cstate' = "Finished" /\ cpc' = "L0"
                                        ELSE cpc' = "RECV" /\ UNCHANGED cstate
                                   /\ UNCHANGED <<result, reads>>
         [] cstate = "Finished" -> Ret("eof") /\ UNCHANGED cstate
         [] cstate = "Error"    -> Ret("err") /\ UNCHANGED cstate
    /\ UNCHANGED <<q, qOwner, cvWait, closed, chan, rxAlive, errStore, shutdown, active,
                   nextDisp, nextRet, lastSeq, ooo, inPos, spawned, delivered, wpc, witem>>

GotResult(seq) ==
    IF seq = nextRet
      THEN /\ nextRet' = nextRet + 1 /\ delivered' = Append(delivered, seq) /\ Ret("chunk")
           /\ UNCHANGED ooo
      ELSE /\ ooo' = ooo \cup {seq} /\ cpc' = "L0"
           /\ UNCHANGED <<nextRet, delivered, result, reads>>

\* R1: try_recv
CR1 ==
    /\ cpc = "R1"
    /\ IF chan # <<>>
         THEN /\ chan' = Tail(chan) /\ GotResult(Head(chan))
         ELSE /\ cpc' = "R2" /\ UNCHANGED <<chan, nextRet, delivered, result, reads, ooo>>
    /\ UNCHANGED <<q, qOwner, cvWait, closed, rxAlive, errStore, shutdown, active,
                   cstate, nextDisp, lastSeq, inPos, spawned, wpc, witem>>

\* R2: queue length check (lock; len; unlock)
CR2 ==
    /\ cpc = "R2" /\ qOwner = 0
    /\ cpc' = IF Len(q) < 4 THEN "R3" ELSE "RECV"
    /\ UNCHANGED <<q, qOwner, cvWait, closed, chan, rxAlive, errStore, shutdown, active,
                   cstate, nextDisp, nextRet, lastSeq, ooo, inPos, spawned, delivered, result, reads, wpc, witem>>

\* R3: read next unit from the source (units pre-cut: abstraction of read_and_dispatch_chunk
\*     accumulating chunks until the next independent one). inPos counts units read.
CR3 ==
    /\ cpc = "R3"
    /\ IF inPos < NUnits
         THEN /\ inPos' = inPos + 1 /\ cpc' = "S1" /\ UNCHANGED <<lastSeq, cstate, errStore, shutdown>>
         ELSE \* end of input
              IF Terminated \/ ~FixEofError
                THEN /\ lastSeq' = IF nextDisp = 0 THEN 0 ELSE nextDisp - 1
                     /\ cstate' = "Draining" /\ cpc' = "L0"
                     /\ UNCHANGED <<inPos, errStore, shutdown>>
                ELSE /\ errStore' = IF errStore = "none" THEN "eof" ELSE errStore
                     /\ shutdown' = TRUE /\ cstate' = "Error" /\ cpc' = "L0"
                     /\ UNCHANGED <<inPos, lastSeq>>
    /\ UNCHANGED <<q, qOwner, cvWait, closed, chan, rxAlive, active,
                   nextDisp, nextRet, ooo, spawned, delivered, result, reads, wpc, witem>>

\* S1: push: closed check (always open while alive) + lock/push/unlock
CS1 ==
    /\ cpc = "S1" /\ qOwner = 0
    /\ q' = Append(q, nextDisp) /\ cpc' = "S2"
    /\ UNCHANGED <<qOwner, cvWait, closed, chan, rxAlive, errStore, shutdown, active,
                   cstate, nextDisp, nextRet, lastSeq, ooo, inPos, spawned, delivered, result, reads, wpc, witem>>

\* S2: notify_one
CS2 ==
    /\ cpc = "S2"
    /\ IF cvWait = {} THEN UNCHANGED <<cvWait, wpc>>
       ELSE \E w \in cvWait : cvWait' = cvWait \ {w} /\ wpc' = [wpc EXCEPT ![w] = "woken"]
    /\ cpc' = "S3"
    /\ UNCHANGED <<q, qOwner, closed, chan, rxAlive, errStore, shutdown, active,
                   cstate, nextDisp, nextRet, lastSeq, ooo, inPos, spawned, delivered, result, reads, witem>>

\* S3: spawn rule (active load + queue len under lock, merged: both are reads)
CS3 ==
    /\ cpc = "S3" /\ qOwner = 0
    /\ IF Len(q) > 0 /\ active = spawned /\ spawned < MaxWorkers
         THEN /\ spawned' = spawned + 1 /\ wpc' = [wpc EXCEPT ![spawned + 1] = "top"]
         ELSE UNCHANGED <<spawned, wpc>>
    /\ nextDisp' = nextDisp + 1 /\ cpc' = "L0"
    /\ UNCHANGED <<q, qOwner, cvWait, closed, chan, rxAlive, errStore, shutdown, active,
                   cstate, nextRet, lastSeq, ooo, inPos, delivered, result, reads, witem>>

\* RECV: blocking recv (coordinator holds a Sender, so it only returns with a message)
CRecv ==
    /\ cpc = "RECV" /\ chan # <<>>
    /\ chan' = Tail(chan) /\ GotResult(Head(chan))
    /\ UNCHANGED <<q, qOwner, cvWait, closed, rxAlive, errStore, shutdown, active,
                   cstate, nextDisp, lastSeq, inPos, spawned, wpc, witem>>

\* repaired: a wake-up token "W" (not a result) makes recv return so the loop re-checks errStore
CRecvWake ==
    /\ FixWakeOnError /\ cpc = "RECV" /\ chan = <<>> /\ errStore # "none"
    /\ cpc' = "L0"
    /\ UNCHANGED <<q, qOwner, cvWait, closed, chan, rxAlive, errStore, shutdown, active,
                   cstate, nextDisp, nextRet, lastSeq, ooo, inPos, spawned, delivered, result, reads, wpc, witem>>

\* Drop: shutdown store, close (store + notify_all), receiver gone
CDrop1 ==
    /\ cpc = "idle" /\ (result \in {"eof", "err"} \/ (DropAt # 99 /\ reads >= DropAt))
    /\ shutdown' = TRUE /\ cpc' = "X2"
    /\ UNCHANGED <<q, qOwner, cvWait, closed, chan, rxAlive, errStore, active,
                   cstate, nextDisp, nextRet, lastSeq, ooo, inPos, spawned, delivered, result, reads, wpc, witem>>

CDrop2 ==  \* closed.store
    /\ cpc = "X2" /\ (FixCloseLock => qOwner = 0)
    /\ closed' = TRUE /\ cpc' = "X3"
    /\ qOwner' = IF FixCloseLock THEN 100 ELSE qOwner
    /\ UNCHANGED <<q, cvWait, chan, rxAlive, errStore, shutdown, active,
                   cstate, nextDisp, nextRet, lastSeq, ooo, inPos, spawned, delivered, result, reads, wpc, witem>>

CDrop3 ==  \* notify_all, then fields dropped (receiver + own sender)
    /\ cpc = "X3"
    /\ wpc' = [w \in Workers |-> IF w \in cvWait THEN "woken" ELSE wpc[w]]
    /\ cvWait' = {} /\ rxAlive' = FALSE /\ cpc' = "gone"
    /\ qOwner' = IF FixCloseLock THEN 0 ELSE qOwner
    /\ UNCHANGED <<q, closed, chan, errStore, shutdown, active,
                   cstate, nextDisp, nextRet, lastSeq, ooo, inPos, spawned, delivered, result, reads, witem>>

\* ---------------------------------------------------------------- workers
WUnch == UNCHANGED <<cpc, cstate, nextDisp, nextRet, lastSeq, ooo, inPos, spawned, delivered, result, reads>>

WTop(w) ==
    /\ wpc[w] = "top"
    /\ wpc' = [wpc EXCEPT ![w] = IF shutdown THEN "exit" ELSE "steal"]
    /\ UNCHANGED <<q, qOwner, cvWait, closed, chan, rxAlive, errStore, shutdown, active, witem>> /\ WUnch

WSteal(w) ==  \* lock; pop or keep lock
    /\ wpc[w] \in {"steal", "woken"} /\ qOwner = 0
    /\ IF q # <<>>
         THEN /\ witem' = [witem EXCEPT ![w] = Head(q)] /\ q' = Tail(q)
              /\ wpc' = [wpc EXCEPT ![w] = "inc"] /\ UNCHANGED qOwner
         ELSE /\ qOwner' = w /\ wpc' = [wpc EXCEPT ![w] = "chk"] /\ UNCHANGED <<q, witem>>
    /\ UNCHANGED <<cvWait, closed, chan, rxAlive, errStore, shutdown, active>> /\ WUnch

WChk(w) ==  \* holding lock: load closed
    /\ wpc[w] = "chk"
    /\ IF closed THEN qOwner' = 0 /\ wpc' = [wpc EXCEPT ![w] = "exit"]
                 ELSE wpc' = [wpc EXCEPT ![w] = "wait"] /\ UNCHANGED qOwner
    /\ UNCHANGED <<q, cvWait, closed, chan, rxAlive, errStore, shutdown, active, witem>> /\ WUnch

WWait(w) ==  \* condvar.wait: atomically release + sleep
    /\ wpc[w] = "wait"
    /\ qOwner' = 0 /\ cvWait' = cvWait \cup {w} /\ wpc' = [wpc EXCEPT ![w] = "sleep"]
    /\ UNCHANGED <<q, closed, chan, rxAlive, errStore, shutdown, active, witem>> /\ WUnch

WInc(w) ==
    /\ wpc[w] = "inc" /\ active' = active + 1
    /\ wpc' = [wpc EXCEPT ![w] = IF witem[w] \in BadUnits THEN "dec_err" ELSE "send"]
    /\ UNCHANGED <<q, qOwner, cvWait, closed, chan, rxAlive, errStore, shutdown, witem>> /\ WUnch

WSend(w) ==
    /\ wpc[w] = "send"
    /\ IF rxAlive THEN chan' = Append(chan, witem[w]) ELSE UNCHANGED chan
    /\ wpc' = [wpc EXCEPT ![w] = IF rxAlive THEN "dec_ok" ELSE "dec_exit"]
    /\ UNCHANGED <<q, qOwner, cvWait, closed, rxAlive, errStore, shutdown, active, witem>> /\ WUnch

WDec(w) ==
    /\ wpc[w] \in {"dec_ok", "dec_exit", "dec_err"} /\ active' = active - 1
    /\ wpc' = [wpc EXCEPT ![w] = CASE wpc[w] = "dec_ok" -> "top" [] wpc[w] = "dec_exit" -> "exit" [] OTHER -> "seterr"]
    /\ UNCHANGED <<q, qOwner, cvWait, closed, chan, rxAlive, errStore, shutdown, witem>> /\ WUnch

WSetErr(w) ==  \* lock error_store; set if none; unlock; store shutdown
    /\ wpc[w] = "seterr"
    /\ errStore' = IF errStore = "none" THEN "worker" ELSE errStore
    /\ shutdown' = TRUE /\ wpc' = [wpc EXCEPT ![w] = "exit"]
    /\ UNCHANGED <<q, qOwner, cvWait, closed, chan, rxAlive, active, witem>> /\ WUnch

WorkerStep(w) == WTop(w) \/ WSteal(w) \/ WChk(w) \/ WWait(w) \/ WInc(w) \/ WSend(w) \/ WDec(w) \/ WSetErr(w)
CoordStep == CallRead \/ CL0 \/ CL1 \/ CL2 \/ CR1 \/ CR2 \/ CR3 \/ CS1 \/ CS2 \/ CS3 \/ CRecv \/ CRecvWake \/ CDrop1 \/ CDrop2 \/ CDrop3

Next == CoordStep \/ \E w \in Workers : WorkerStep(w)

Spec == Init /\ [][Next]_vars /\ WF_vars(CoordStep) /\ \A w \in Workers : WF_vars(WorkerStep(w))

\* ---------------------------------------------------------------- properties
TypeOK == active \in 0..MaxWorkers /\ spawned \in 1..MaxWorkers

\* C08: in-order exactly-once delivery
InOrder == \A i \in 1..Len(delivered) : delivered[i] = i - 1
\* C09 (safety half): success only with all units delivered and a terminator present
NoFalseSuccess == result = "eof" => /\ Len(delivered) = NUnits /\ BadUnits = {} /\ (FixEofError => Terminated)
\* C10: worker bound
WorkerBound == Cardinality({w \in Workers : wpc[w] \notin {"unborn", "exit"}}) <= MaxWorkers /\ spawned <= MaxWorkers

\* C09 exact deadlock: nobody can move while the caller is inside a call or workers are unfinished
CoordBlocked == cpc = "RECV" /\ chan = <<>> /\ ~(FixWakeOnError /\ errStore # "none")
Stuck == ~ENABLED Next
NoDeadlock == Stuck => /\ cpc = "gone" /\ \A w \in Workers : wpc[w] \in {"unborn", "exit"}

\* liveness
CallsReturn == (cpc = "L0") ~> (cpc = "idle")
WorkersReleased == (cpc = "gone") ~> (\A w \in Workers : wpc[w] \in {"unborn", "exit"})
=============================================================================
