SPECIFICATION Spec
CONSTANTS FixFloor = TRUE
INVARIANTS Covers Minimal
CHECK_DEADLOCK FALSE
