---------------------------- MODULE LzDecoder ----------------------------
(* DRAFT: decoder dictionary ring (lz/lz_decoder.rs) driven by the read loop of lzma_reader.rs /
   lzma2_reader.rs. Cells carry value ids; `ref` is the reference (unbounded) output. *)
EXTENDS Integers, Sequences, TLC
CONSTANTS B,          \* ring size (dictionary)
          MaxStream,  \* stop producing symbols once this many bytes exist
          ReadSizes,  \* destination buffer sizes the caller may use (0 included)
          MaxLen      \* longest match

Min(a, b) == IF a < b THEN a ELSE b
Max(a, b) == IF a > b THEN a ELSE b

VARIABLES buf, start, pos, full, limit, pLen, pDist,   \* LZDecoder
          ref, out,                                      \* reference stream, bytes delivered so far
          pc, want, got, nextId, bad
vars == <<buf, start, pos, full, limit, pLen, pDist, ref, out, pc, want, got, nextId, bad>>

Init == /\ buf = [i \in 0..B-1 |-> 0] /\ start = 0 /\ pos = 0 /\ full = 0 /\ limit = 0 /\ pLen = 0 /\ pDist = 0
        /\ ref = <<>> /\ out = <<>> /\ pc = "idle" /\ want = 0 /\ got = 0 /\ nextId = 1 /\ bad = "none"

\* memmove of n cells from src to dst on function f (copy_within)
CopyWithin(f, src, dst, n) == [i \in 0..B-1 |-> IF i >= dst /\ i < dst + n THEN f[src + (i - dst)] ELSE f[i]]

\* LZDecoder::repeat(dist, len) transcribed; returns record of new fields (error handled by caller)
Repeat(dist, len) ==
  LET left0 == Min(limit - pos, len)
      pl == len - left0
      wraps == pos < dist + 1
      \* part 1: source wraps around the end of the ring
      back1 == B + pos - dist - 1
      cs1 == IF wraps THEN Min(B - back1, left0) ELSE 0
      buf1 == IF wraps THEN CopyWithin(buf, back1, pos, cs1) ELSE buf
      pos1 == pos + cs1
      left1 == left0 - cs1
      back == IF wraps THEN 0 ELSE pos - dist - 1
  IN IF left1 = 0 THEN [buf |-> buf1, pos |-> pos1, pLen |-> pl, pDist |-> dist]
     ELSE IF dist >= left1
            THEN [buf |-> CopyWithin(buf1, back, pos1, left1), pos |-> pos1 + left1, pLen |-> pl, pDist |-> dist]
            ELSE \* overlapping: doubling loop, `back` fixed
                 LET RECURSIVE Loop(_, _, _)
                     Loop(f, p, l) == IF l = 0 THEN [buf |-> f, pos |-> p]
                                      ELSE LET cs == Min(l, p - back) IN Loop(CopyWithin(f, back, p, cs), p + cs, l - cs)
                     r == Loop(buf1, pos1, left1)
                 IN [buf |-> r.buf, pos |-> r.pos, pLen |-> pl, pDist |-> dist]

\* reference semantics of a match on the unbounded stream
RECURSIVE RefCopy(_, _, _)
RefCopy(r, dist, len) == IF len = 0 THEN r ELSE RefCopy(Append(r, r[Len(r) - dist]), dist, len - 1)

CallRead == /\ pc = "idle" /\ \E k \in ReadSizes : want' = k /\ got' = 0 /\ pc' = (IF k = 0 THEN "idle" ELSE "limit")
            /\ UNCHANGED <<buf, start, pos, full, limit, pLen, pDist, ref, out, nextId, bad>>

SetLimit == /\ pc = "limit" /\ limit' = Min((want - got) + pos, B) /\ pc' = "pending"
            /\ UNCHANGED <<buf, start, pos, full, pLen, pDist, ref, out, want, got, nextId, bad>>

RepeatPending ==
  /\ pc = "pending"
  /\ IF pLen > 0
       THEN LET r == Repeat(pDist, pLen) IN
            /\ buf' = r.buf /\ pos' = r.pos /\ pLen' = r.pLen /\ pDist' = r.pDist /\ full' = Max(full, r.pos)
       ELSE UNCHANGED <<buf, pos, pLen, pDist, full>>
  /\ pc' = "decode"
  /\ UNCHANGED <<start, limit, ref, out, want, got, nextId, bad>>

Lit == /\ pc = "decode" /\ pos < limit /\ Len(ref) < MaxStream
       /\ buf' = [buf EXCEPT ![pos] = nextId] /\ pos' = pos + 1 /\ full' = Max(full, pos + 1)
       /\ ref' = Append(ref, nextId) /\ nextId' = nextId + 1
       /\ UNCHANGED <<start, limit, pLen, pDist, out, pc, want, got, bad>>

Match(dist, len) ==
  /\ pc = "decode" /\ pos < limit /\ Len(ref) < MaxStream /\ dist < full /\ dist < Len(ref)
  /\ LET r == Repeat(dist, len) IN
     /\ buf' = r.buf /\ pos' = r.pos /\ pLen' = r.pLen /\ pDist' = r.pDist /\ full' = Max(full, r.pos)
  /\ ref' = RefCopy(ref, dist, len)
  /\ UNCHANGED <<start, limit, out, pc, want, got, nextId, bad>>

\* decode() leaves its loop: no space, or stream exhausted
EndDecode == /\ pc = "decode" /\ (pos >= limit \/ Len(ref) >= MaxStream) /\ pc' = "flush"
             /\ UNCHANGED <<buf, start, pos, full, limit, pLen, pDist, ref, out, want, got, nextId, bad>>

Flush ==
  /\ pc = "flush"
  /\ LET n == pos - start
         chunk == [i \in 1..n |-> buf[start + i - 1]]
         pos2 == IF pos = B THEN 0 ELSE pos
     IN /\ out' = out \o chunk /\ pos' = pos2 /\ start' = pos2 /\ got' = got + n
        /\ pc' = IF got + n = want \/ (Len(ref) >= MaxStream /\ pLen = 0 /\ n = 0) \/ (Len(ref) >= MaxStream /\ pLen = 0 /\ Len(out) + n = Len(ref))
                 THEN "idle" ELSE "limit"
  /\ UNCHANGED <<buf, full, limit, pLen, pDist, ref, want, nextId, bad>>

Next == CallRead \/ SetLimit \/ RepeatPending \/ Lit \/ EndDecode \/ Flush
        \/ \E d \in 0..B-1, l \in 2..MaxLen : Match(d, l)
Spec == Init /\ [][Next]_vars

\* everything delivered so far is the reference stream, in order, nothing lost or duplicated
OutputIsPrefix == Len(out) <= Len(ref) /\ \A i \in 1..Len(out) : out[i] = ref[i]
\* pending part of a match plus buffered bytes account for the rest
Accounting == Len(out) + (pos - start) + pLen = Len(ref)
InBounds == pos <= B /\ start <= pos /\ limit <= B /\ full <= B
=============================================================================
