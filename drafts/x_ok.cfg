SPECIFICATION Spec
CONSTANTS CheckSize = 4
 BlockSize = 2
 MaxWrite = 4
 N = 6
 CSizes = {1,2,3,4}
 FixIndexHeader = TRUE
 FixEmpty = TRUE
 FixBlockClamp = TRUE
INVARIANTS WellFormed Content SizeLimit
CHECK_DEADLOCK FALSE
