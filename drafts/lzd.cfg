SPECIFICATION Spec
CONSTANTS B = 4
 MaxStream = 8
 ReadSizes = {0, 1, 2, 3, 5}
 MaxLen = 4
INVARIANTS OutputIsPrefix Accounting InBounds
CHECK_DEADLOCK FALSE
