SPECIFICATION Spec
CONSTANTS W = 5
 Dict = 3
 Slots = {1, 2}
 Steps = 30
 NormKind = "sat"
INVARIANTS TrueDistance NoOverflow
CHECK_DEADLOCK FALSE
