---------------------------- MODULE TraceS ----------------------------
EXTENDS LzmaSymbols, Json, IOUtils
Rec == ndJsonDeserialize(IOEnv.TRACE)
VARIABLES l, te, td, syms, di
tv == <<l, te, td, syms, di, vars>>
Ev == Rec[l]
R(e) == <<e.r[1], e.r[2], e.r[3], e.r[4]>>
Obs(e) == [st |-> e.st, r |-> R(e)]
TInit == Init /\ l = 1 /\ te = M0 /\ td = M0 /\ syms = <<>> /\ di = 1
\* encoder event: the logged post-state must be the transcription's image of the previous one
TEnc == /\ l <= Len(Rec) /\ Ev.side = "E"
        /\ te' = EncStep(te, Ev.back, Ev.len) /\ te' = Obs(Ev)
        /\ syms' = Append(syms, [k |-> IF Ev.back = -1 THEN "lit" ELSE IF Ev.back >= 4 THEN "match" ELSE "rep", len |-> Ev.len, r0 |-> Ev.r[1]])
        /\ UNCHANGED <<td, di>>
\* decoder event: post-state explained by the decoder transcription, and symbol equals the encoder's
DecImg(m, e) == CASE e.kind = "lit" -> {DecLit(m)}
                  [] e.kind = "match" -> {DecMatch(m, e.r[1])}
                  [] OTHER -> IF e.len = 1 THEN {DecShortRep(m)} ELSE {DecLongRep(m, i) : i \in 0..3}
TDec == /\ l <= Len(Rec) /\ Ev.side = "D"
        /\ Obs(Ev) \in DecImg(td, Ev) /\ td' = Obs(Ev)
        /\ \/ (di <= Len(syms) /\ syms[di].k = Ev.kind /\ syms[di].len = Ev.len /\ syms[di].r0 = Ev.r[1])
           \/ (di = Len(syms) + 1 /\ Ev.kind = "match" /\ Ev.r[1] = -1)   \* end marker
        /\ di' = di + 1 /\ UNCHANGED <<te, syms>>
TNext == l' = l + 1 /\ (TEnc \/ TDec) /\ UNCHANGED vars
TSpec == TInit /\ [][TNext]_tv
Accepted == IF TLCGet("stats").diameter - 1 = Len(Rec) THEN TRUE
            ELSE Print(<<"REJECTED after event", TLCGet("stats").diameter - 1, "next", Rec[TLCGet("stats").diameter]>>, FALSE)
=============================================================================
