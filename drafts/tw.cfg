SPECIFICATION TSpec
CONSTANTS Dict = 8192
 ExtraBefore = 1
 ExtraAfter = 272
 MatchMax = 273
 Reserve = 266240
 CLimit = 65510
 ULimit = 2096879
 ReqFlush = 4
 ReqFinish = 4
 MaxLook = 1
 N = 354148
 MaxWrite = 50000
 TraceMode = TRUE
 Align = 64
INVARIANTS Track NoBad IndicesInRange
POSTCONDITION Accepted
CHECK_DEADLOCK FALSE
