SPECIFICATION TSpec
CONSTANTS Dists = {1}
 MaxLen = 1
POSTCONDITION Accepted
CHECK_DEADLOCK FALSE
