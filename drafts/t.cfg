SPECIFICATION TSpec
CONSTANTS MaxWorkers = 2
 Chunks <- C3I
 Terminated = TRUE
 BadUnits = {}
 DropAfter = 99
 FixCloseLock = FALSE
 FixEofError = FALSE
INVARIANTS Track InOrder NoFalseSuccess WorkerBound
POSTCONDITION Accepted
CHECK_DEADLOCK FALSE
