use std::io::{BufRead, Read, Write};
use std::sync::{Arc, Mutex};
use std::time::Instant;
use lzma_rust2::verif_rt::{self, Op, Policy};
use lzma_rust2::*;

fn make_stream(units: usize, unit_len: usize) -> (Vec<u8>, Vec<u8>) {
    let mut all = Vec::new(); let mut data = Vec::new();
    for u in 0..units {
        let d: Vec<u8> = (0..unit_len).map(|i| ((i * 7 + u * 13) % 251) as u8).collect();
        let mut o = LZMA2Options::with_preset(0); o.lzma_options.dict_size = 4096;
        let mut w = LZMA2Writer::new(Vec::new(), o); w.write_all(&d).unwrap(); w.flush().unwrap();
        all.extend(w.into_inner()); data.extend(d);
    }
    all.push(0);
    (all, data)
}
#[derive(Default, Debug)]
struct GRep { divergence: Option<String>, en_mismatch: Option<String>, used: usize }
struct Guided { steps: Vec<(usize, Vec<usize>, bool)>, pos: usize, rep: Arc<Mutex<GRep>> }
impl Policy for Guided {
    fn choose(&mut self, enabled: &[usize], current: usize, _s: usize) -> usize {
        if self.pos < self.steps.len() {
            let (t, en, cmp) = &self.steps[self.pos];
            let mut r = self.rep.lock().unwrap();
            if *cmp && r.en_mismatch.is_none() && r.divergence.is_none() {
                let mut a = enabled.to_vec(); a.sort(); let mut b = en.clone(); b.sort(); b.dedup();
                if a != b { r.en_mismatch = Some(format!("step {} impl {:?} spec {:?}", self.pos, a, b)); }
            }
            if r.divergence.is_none() {
                if enabled.contains(t) { self.pos += 1; r.used = self.pos; return *t; }
                r.divergence = Some(format!("step {} wants {} enabled {:?}", self.pos, t, enabled));
            }
            self.pos = self.steps.len();
        }
        if enabled.contains(&current) { current } else { enabled[0] }
    }
}
fn tid_of(label: &str) -> usize {
    if label.starts_with('C') { 0 } else { let a = label.find('(').unwrap(); label[a + 1..label.len() - 1].parse().unwrap() }
}
fn silent(label: &str) -> bool { label == "CCall" || label == "CL0Hit" || label == "CRetEof" }
// minimal JSON scan for [{"a": "...", "en": ["..",..]}, ...] produced by tour.py
fn parse_path(line: &str) -> Vec<(String, Vec<String>)> {
    let mut out = Vec::new(); let mut rest = line;
    while let Some(i) = rest.find("{\"a\": \"") {
        rest = &rest[i + 7..]; let e = find_end(rest); let a = unesc(&rest[..e]); rest = &rest[e..];
        let j = rest.find("\"en\": [").unwrap(); rest = &rest[j + 7..]; let k = rest.find(']').unwrap();
        let ens: Vec<String> = split_strs(&rest[..k]); rest = &rest[k..];
        out.push((a, ens));
    }
    out
}
fn find_end(s: &str) -> usize { let b = s.as_bytes(); let mut i = 0; while i < b.len() { if b[i] == b'\\' { i += 2; continue } if b[i] == b'"' { return i } i += 1 } b.len() }
fn unesc(s: &str) -> String { s.replace("\\\\\\\"", "\"").replace("\\\"", "\"").replace("\\\\", "") }
fn split_strs(s: &str) -> Vec<String> { let mut v = Vec::new(); let mut r = s; while let Some(i) = r.find('"') { r = &r[i + 1..]; let e = find_end(r); v.push(unesc(&r[..e])); r = &r[e + 1..]; } v }

fn main() {
    std::panic::set_hook(Box::new(|_| {}));
    let args: Vec<String> = std::env::args().collect();
    let limit: usize = args.get(2).map(|s| s.parse().unwrap()).unwrap_or(usize::MAX);
    let (s3, d3) = make_stream(3, 300);
    let f = std::io::BufReader::new(std::fs::File::open(&args[1]).unwrap());
    let t0 = Instant::now();
    let (mut n, mut div, mut enm, mut stats) = (0usize, 0usize, 0usize, std::collections::BTreeMap::new());
    let mut first_div = None; let mut first_enm = None; let mut total_steps = 0usize;
    for line in f.lines() {
        if n >= limit { break }
        let path = parse_path(&line.unwrap());
        let steps: Vec<(usize, Vec<usize>, bool)> = path.iter().filter(|(a, _)| !silent(a)).map(|(a, en)| {
            let has_c = en.iter().any(|l| l.starts_with('C'));
            let cmp = has_c && !en.iter().any(|l| silent(l));
            (tid_of(a), en.iter().map(|l| tid_of(l)).collect(), cmp)
        }).collect();
        let rep = Arc::new(Mutex::new(GRep::default()));
        let out = Arc::new(Mutex::new(None)); let o2 = out.clone();
        let (s, d) = (s3.clone(), d3.clone());
        let nsteps = steps.len();
        let r = verif_rt::run(Box::new(Guided { steps, pos: 0, rep: rep.clone() }), 20000, move || {
            let mut r = LZMA2ReaderMT::new(s.as_slice(), 4096, None, 2);
            let mut buf = Vec::new(); let res = r.read_to_end(&mut buf);
            *o2.lock().unwrap() = Some(res.is_ok() && buf == d); drop(r);
        });
        total_steps += r.steps;
        let main_done = r.log.iter().any(|(t, o)| *t == 0 && *o == Op::Exit);
        let verdict = if r.deadlock && !main_done { "DEADLOCK" } else if r.deadlock { "LEAK" } else { "clean" };
        *stats.entry(format!("{} {:?}", verdict, out.lock().unwrap())).or_insert(0usize) += 1;
        let g = rep.lock().unwrap();
        if let Some(d) = &g.divergence { div += 1; if first_div.is_none() { first_div = Some((n, d.clone(), nsteps)); } }
        if let Some(d) = &g.en_mismatch { enm += 1; if first_enm.is_none() { first_enm = Some((n, d.clone())); } }
        n += 1;
    }
    println!("paths {} in {:?}; runtime steps {}; divergences {}; enabled-set mismatches {}; verdicts {:?}", n, t0.elapsed(), total_steps, div, enm, stats);
    println!("first divergence {:?}", first_div); println!("first enabled mismatch {:?}", first_enm);
}
