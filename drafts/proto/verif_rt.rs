//! PROTOTYPE deterministic concurrency runtime (design-time scratch).
//! One OS thread per logical thread, exactly one holds the baton.
#![allow(missing_docs)]
use std::cell::Cell;
use std::collections::VecDeque;
use std::panic::{catch_unwind, resume_unwind, AssertUnwindSafe};
use std::sync::{Condvar as StdCondvar, Mutex as StdMutex, MutexGuard as StdGuard};

#[derive(Clone, Debug, PartialEq)]
pub enum Op {
    Start,
    Exit,
    Lock(usize),
    Unlock(usize),
    CvWait { cv: usize, m: usize },
    CvWake { cv: usize, m: usize },
    NotifyOne(usize),
    NotifyAll(usize),
    ALoad(usize),
    AStore(usize, u64),
    AAdd(usize, i64),
    Send(usize),
    Recv(usize),
    TryRecv(usize),
    Spawn(usize),
    DropSender(usize),
    DropReceiver(usize),
    User(String),
}

pub trait Policy: Send {
    /// choose one of `enabled` (non-empty); `current` is the thread that just yielded
    fn choose(&mut self, enabled: &[usize], current: usize, step: usize) -> usize;
}

pub struct Replay(pub Vec<usize>, pub usize);
impl Policy for Replay {
    fn choose(&mut self, enabled: &[usize], current: usize, _step: usize) -> usize {
        while self.1 < self.0.len() {
            let t = self.0[self.1];
            self.1 += 1;
            if enabled.contains(&t) {
                return t;
            }
        }
        if enabled.contains(&current) { current } else { enabled[0] }
    }
}
pub struct Random(pub u64);
impl Policy for Random {
    fn choose(&mut self, enabled: &[usize], _c: usize, _s: usize) -> usize {
        self.0 = self.0.wrapping_mul(6364136223846793005).wrapping_add(1442695040888963407);
        enabled[((self.0 >> 33) as usize) % enabled.len()]
    }
}

#[derive(Default)]
struct Th {
    pending: Option<Op>,
    finished: bool,
    notified: bool,
}
#[derive(Default)]
struct Chan {
    len: usize,
    senders: usize,
    rx_alive: bool,
}
struct Core {
    th: Vec<Th>,
    current: Option<usize>,
    owner: Vec<Option<usize>>,
    waiters: Vec<Vec<usize>>,
    atomics: Vec<u64>,
    chans: Vec<Chan>,
    log: Vec<(usize, Op)>,
    policy: Box<dyn Policy>,
    abort: bool,
    deadlock: bool,
    done: bool,
    os_live: usize,
    steps: usize,
    max_steps: usize,
}

static CORE: StdMutex<Option<Core>> = StdMutex::new(None);
static CV: StdCondvar = StdCondvar::new();
thread_local! { static TID: Cell<usize> = const { Cell::new(usize::MAX) }; static FIRST: Cell<bool> = const { Cell::new(false) }; }

struct AbortToken;

#[derive(Debug, Default)]
pub struct Report {
    pub log: Vec<(usize, Op)>,
    pub deadlock: bool,
    /// threads not finished when nothing was runnable any more
    pub blocked: Vec<(usize, Option<Op>)>,
    pub threads: usize,
    pub steps: usize,
    pub main_panicked: bool,
}

impl Core {
    fn enabled(&self, t: usize) -> bool {
        let th = &self.th[t];
        if th.finished {
            return false;
        }
        match &th.pending {
            None => false,
            Some(Op::Lock(m)) => self.owner[*m].is_none(),
            Some(Op::CvWake { m, .. }) => th.notified && self.owner[*m].is_none(),
            Some(Op::Recv(c)) => self.chans[*c].len > 0 || self.chans[*c].senders == 0,
            Some(_) => true,
        }
    }
    fn pick_next(&mut self, me: usize) {
        let en: Vec<usize> = (0..self.th.len()).filter(|&t| self.enabled(t)).collect();
        self.steps += 1;
        if en.is_empty() || self.steps > self.max_steps {
            if self.th.iter().all(|t| t.finished) {
                self.done = true;
            } else {
                self.deadlock = true;
                self.abort = true;
            }
            self.current = None;
        } else {
            let c = self.policy.choose(&en, me, self.steps);
            self.current = Some(c);
        }
    }
    fn apply(&mut self, me: usize, op: &Op) {
        match op {
            Op::Lock(m) => self.owner[*m] = Some(me),
            Op::Unlock(m) => self.owner[*m] = None,
            Op::CvWait { cv, m } => {
                self.owner[*m] = None;
                self.waiters[*cv].push(me);
                self.th[me].notified = false;
            }
            Op::CvWake { m, .. } => self.owner[*m] = Some(me),
            Op::NotifyOne(cv) => {
                if !self.waiters[*cv].is_empty() {
                    let w = self.waiters[*cv].remove(0);
                    self.th[w].notified = true;
                }
            }
            Op::NotifyAll(cv) => {
                for w in std::mem::take(&mut self.waiters[*cv]) {
                    self.th[w].notified = true;
                }
            }
            Op::AStore(a, v) => self.atomics[*a] = *v,
            Op::AAdd(a, d) => self.atomics[*a] = (self.atomics[*a] as i64 + d) as u64,
            Op::Send(c) => {
                if self.chans[*c].rx_alive {
                    self.chans[*c].len += 1
                }
            }
            Op::Recv(c) | Op::TryRecv(c) => {
                if self.chans[*c].len > 0 {
                    self.chans[*c].len -= 1
                }
            }
            Op::DropSender(c) => self.chans[*c].senders -= 1,
            Op::DropReceiver(c) => self.chans[*c].rx_alive = false,
            Op::Exit => self.th[me].finished = true,
            _ => {}
        }
    }
}

fn active() -> bool {
    TID.with(|t| t.get()) != usize::MAX
}

/// Yield at a visible operation; returns after the op was granted and applied.
fn sched_point(op: Op) {
    let me = TID.with(|t| t.get());
    if me == usize::MAX {
        return;
    }
    let mut g = CORE.lock().unwrap();
    {
        let core = match g.as_mut() {
            Some(c) => c,
            None => return,
        };
        if core.abort {
            return; // unwinding: ops are no-ops
        }
        core.th[me].pending = Some(op);
        if FIRST.with(|f| f.replace(false)) {
            // child thread reaching its first visible operation: it does not hold the baton
        } else {
            core.pick_next(me);
        }
    }
    CV.notify_all();
    loop {
        let core = g.as_mut().unwrap();
        if core.abort {
            drop(g);
            if std::thread::panicking() {
                return;
            }
            resume_unwind(Box::new(AbortToken));
        }
        if core.current == Some(me) {
            let op = core.th[me].pending.take().unwrap();
            core.apply(me, &op);
            core.log.push((me, op));
            return;
        }
        g = CV.wait(g).unwrap();
    }
}

fn new_id(f: impl FnOnce(&mut Core) -> usize) -> usize {
    if !active() {
        return usize::MAX;
    }
    let mut g = CORE.lock().unwrap();
    match g.as_mut() {
        Some(c) => f(c),
        None => usize::MAX,
    }
}

pub fn user_event(s: String) {
    if active() {
        let mut g = CORE.lock().unwrap();
        if let Some(c) = g.as_mut() {
            let me = TID.with(|t| t.get());
            c.log.push((me, Op::User(s)));
        }
    }
}

fn thread_body(tid: usize, f: Box<dyn FnOnce() + Send>) {
    TID.with(|t| t.set(tid));
    if tid == 0 {
        let mut g = CORE.lock().unwrap();
        let core = g.as_mut().unwrap();
        core.th[0].pending = None;
    } else {
        FIRST.with(|f| f.set(true));
    }
    let r = catch_unwind(AssertUnwindSafe(f));
    let aborted = matches!(&r, Err(e) if e.is::<AbortToken>());
    if !aborted {
        if r.is_err() {
            user_event("PANIC".to_string());
        }
        // normal exit is a scheduling point too
        let _ = catch_unwind(|| sched_point(Op::Exit));
        // hand over the baton
        let mut g = CORE.lock().unwrap();
        if let Some(core) = g.as_mut() {
            if !core.abort && core.current == Some(tid) {
                core.pick_next(tid);
            }
        }
    }
    let mut g = CORE.lock().unwrap();
    if let Some(core) = g.as_mut() {
        core.os_live -= 1;
    }
    drop(g);
    CV.notify_all();
}

pub fn run(policy: Box<dyn Policy>, max_steps: usize, main: impl FnOnce() + Send + 'static) -> Report {
    {
        let mut g = CORE.lock().unwrap();
        assert!(g.is_none(), "runtime already active");
        *g = Some(Core {
            th: vec![Th::default()],
            current: Some(0),
            owner: vec![],
            waiters: vec![],
            atomics: vec![],
            chans: vec![],
            log: vec![],
            policy,
            abort: false,
            deadlock: false,
            done: false,
            os_live: 1,
            steps: 0,
            max_steps,
        });
    }
    std::thread::Builder::new()
        .stack_size(1 << 20)
        .spawn(move || thread_body(0, Box::new(main)))
        .unwrap();
    let mut g = CORE.lock().unwrap();
    loop {
        let core = g.as_mut().unwrap();
        if (core.done || core.abort) && core.os_live == 0 {
            break;
        }
        if core.abort {
            CV.notify_all();
        }
        g = CV.wait_timeout(g, std::time::Duration::from_millis(20)).unwrap().0;
    }
    let core = g.take().unwrap();
    let blocked = core
        .th
        .iter()
        .enumerate()
        .filter(|(_, t)| !t.finished)
        .map(|(i, t)| (i, t.pending.clone()))
        .collect();
    let main_panicked = core.log.iter().any(|(t, o)| *t == 0 && *o == Op::User("PANIC".into()));
    Report { threads: core.th.len(), steps: core.steps, deadlock: core.deadlock, blocked, log: core.log, main_panicked }
}

// ------------------------------------------------------------------ shims
pub mod sync {
    pub use super::{Condvar, Mutex, MutexGuard};
    pub use std::sync::Arc;
    pub mod atomic {
        pub use super::super::{AtomicBool, AtomicU32};
        pub use std::sync::atomic::Ordering;
    }
    pub mod mpsc {
        pub use super::super::{channel, Receiver, Sender};
        pub use std::sync::mpsc::{RecvError, SendError, TryRecvError};
    }
}
pub mod thread {
    pub use super::{spawn, JoinHandle};
}

pub struct Mutex<T> {
    id: usize,
    data: StdMutex<T>,
}
pub struct MutexGuard<'a, T> {
    m: &'a Mutex<T>,
    g: Option<StdGuard<'a, T>>,
}
impl<T> Mutex<T> {
    pub fn new(v: T) -> Self {
        let id = new_id(|c| {
            c.owner.push(None);
            c.owner.len() - 1
        });
        Self { id, data: StdMutex::new(v) }
    }
    pub fn lock(&self) -> std::sync::LockResult<MutexGuard<'_, T>> {
        if self.id != usize::MAX {
            sched_point(Op::Lock(self.id));
        }
        let g = self.data.lock().unwrap_or_else(|e| e.into_inner());
        Ok(MutexGuard { m: self, g: Some(g) })
    }
}
impl<T> std::ops::Deref for MutexGuard<'_, T> {
    type Target = T;
    fn deref(&self) -> &T {
        self.g.as_ref().unwrap()
    }
}
impl<T> std::ops::DerefMut for MutexGuard<'_, T> {
    fn deref_mut(&mut self) -> &mut T {
        self.g.as_mut().unwrap()
    }
}
impl<T> Drop for MutexGuard<'_, T> {
    fn drop(&mut self) {
        if self.g.take().is_some() && self.m.id != usize::MAX {
            sched_point(Op::Unlock(self.m.id));
        }
    }
}

pub struct Condvar {
    id: usize,
}
impl Condvar {
    pub fn new() -> Self {
        Self {
            id: new_id(|c| {
                c.waiters.push(vec![]);
                c.waiters.len() - 1
            }),
        }
    }
    pub fn wait<'a, T>(&self, mut guard: MutexGuard<'a, T>) -> std::sync::LockResult<MutexGuard<'a, T>> {
        let m = guard.m;
        drop(guard.g.take()); // release the data lock without reporting Unlock
        sched_point(Op::CvWait { cv: self.id, m: m.id });
        sched_point(Op::CvWake { cv: self.id, m: m.id });
        let g = m.data.lock().unwrap_or_else(|e| e.into_inner());
        Ok(MutexGuard { m, g: Some(g) })
    }
    pub fn notify_one(&self) {
        sched_point(Op::NotifyOne(self.id));
    }
    pub fn notify_all(&self) {
        sched_point(Op::NotifyAll(self.id));
    }
}

pub struct AtomicBool {
    id: usize,
    v: std::sync::atomic::AtomicBool,
}
impl AtomicBool {
    pub fn new(v: bool) -> Self {
        Self {
            id: new_id(|c| {
                c.atomics.push(v as u64);
                c.atomics.len() - 1
            }),
            v: std::sync::atomic::AtomicBool::new(v),
        }
    }
    pub fn load(&self, o: std::sync::atomic::Ordering) -> bool {
        if self.id != usize::MAX {
            sched_point(Op::ALoad(self.id));
        }
        self.v.load(o)
    }
    pub fn store(&self, v: bool, o: std::sync::atomic::Ordering) {
        if self.id != usize::MAX {
            sched_point(Op::AStore(self.id, v as u64));
        }
        self.v.store(v, o)
    }
}
pub struct AtomicU32 {
    id: usize,
    v: std::sync::atomic::AtomicU32,
}
impl AtomicU32 {
    pub fn new(v: u32) -> Self {
        Self {
            id: new_id(|c| {
                c.atomics.push(v as u64);
                c.atomics.len() - 1
            }),
            v: std::sync::atomic::AtomicU32::new(v),
        }
    }
    pub fn load(&self, o: std::sync::atomic::Ordering) -> u32 {
        if self.id != usize::MAX {
            sched_point(Op::ALoad(self.id));
        }
        self.v.load(o)
    }
    pub fn fetch_add(&self, d: u32, o: std::sync::atomic::Ordering) -> u32 {
        if self.id != usize::MAX {
            sched_point(Op::AAdd(self.id, d as i64));
        }
        self.v.fetch_add(d, o)
    }
    pub fn fetch_sub(&self, d: u32, o: std::sync::atomic::Ordering) -> u32 {
        if self.id != usize::MAX {
            sched_point(Op::AAdd(self.id, -(d as i64)));
        }
        self.v.fetch_sub(d, o)
    }
}

struct ChanInner<T> {
    id: usize,
    q: StdMutex<VecDeque<T>>,
}
pub struct Sender<T> {
    c: std::sync::Arc<ChanInner<T>>,
}
pub struct Receiver<T> {
    c: std::sync::Arc<ChanInner<T>>,
}
pub fn channel<T>() -> (Sender<T>, Receiver<T>) {
    let id = new_id(|c| {
        c.chans.push(Chan { len: 0, senders: 1, rx_alive: true });
        c.chans.len() - 1
    });
    let c = std::sync::Arc::new(ChanInner { id, q: StdMutex::new(VecDeque::new()) });
    (Sender { c: c.clone() }, Receiver { c })
}
fn with_core<R>(f: impl FnOnce(&mut Core) -> R) -> Option<R> {
    let mut g = CORE.lock().unwrap();
    g.as_mut().map(f)
}
impl<T> Clone for Sender<T> {
    fn clone(&self) -> Self {
        if self.c.id != usize::MAX {
            with_core(|c| c.chans[self.c.id].senders += 1);
        }
        Sender { c: self.c.clone() }
    }
}
impl<T> Drop for Sender<T> {
    fn drop(&mut self) {
        if self.c.id != usize::MAX && active() {
            sched_point(Op::DropSender(self.c.id));
        }
    }
}
impl<T> Drop for Receiver<T> {
    fn drop(&mut self) {
        if self.c.id != usize::MAX && active() {
            sched_point(Op::DropReceiver(self.c.id));
        }
    }
}
impl<T> Sender<T> {
    pub fn send(&self, v: T) -> Result<(), std::sync::mpsc::SendError<T>> {
        if self.c.id == usize::MAX {
            self.c.q.lock().unwrap().push_back(v);
            return Ok(());
        }
        sched_point(Op::Send(self.c.id));
        let alive = with_core(|c| c.chans[self.c.id].rx_alive).unwrap_or(false);
        if alive {
            self.c.q.lock().unwrap().push_back(v);
            Ok(())
        } else {
            Err(std::sync::mpsc::SendError(v))
        }
    }
}
impl<T> Receiver<T> {
    pub fn recv(&self) -> Result<T, std::sync::mpsc::RecvError> {
        if self.c.id != usize::MAX {
            sched_point(Op::Recv(self.c.id));
        }
        self.c.q.lock().unwrap().pop_front().ok_or(std::sync::mpsc::RecvError)
    }
    pub fn try_recv(&self) -> Result<T, std::sync::mpsc::TryRecvError> {
        if self.c.id != usize::MAX {
            sched_point(Op::TryRecv(self.c.id));
        }
        match self.c.q.lock().unwrap().pop_front() {
            Some(v) => Ok(v),
            None => {
                let senders = with_core(|c| c.chans[self.c.id].senders).unwrap_or(0);
                if senders == 0 {
                    Err(std::sync::mpsc::TryRecvError::Disconnected)
                } else {
                    Err(std::sync::mpsc::TryRecvError::Empty)
                }
            }
        }
    }
}

pub struct JoinHandle<T>(std::marker::PhantomData<T>);
pub fn spawn<F: FnOnce() + Send + 'static>(f: F) -> JoinHandle<()> {
    if !active() {
        std::thread::spawn(f);
        return JoinHandle(std::marker::PhantomData);
    }
    // the Spawn event is granted and logged first; only then does the child exist for the scheduler
    let tid = with_core(|c| c.th.len()).unwrap();
    sched_point(Op::Spawn(tid));
    with_core(|c| {
        c.th.push(Th { pending: None, ..Default::default() });
        c.os_live += 1;
    });
    std::thread::Builder::new()
        .stack_size(1 << 20)
        .spawn(move || thread_body(tid, Box::new(f)))
        .unwrap();
    // handshake: the child runs its thread-local prologue up to its first visible operation
    let mut g = CORE.lock().unwrap();
    loop {
        let core = g.as_mut().unwrap();
        if core.abort || core.th[tid].pending.is_some() || core.th[tid].finished {
            break;
        }
        g = CV.wait(g).unwrap();
    }
    drop(g);
    JoinHandle(std::marker::PhantomData)
}
