import re, sys, json, collections, time
t0=time.time()
edges=collections.defaultdict(list)   # src -> [(dst,label)]
init=None
edge_re=re.compile(r'^(-?\d+) -> (-?\d+) \[label="((?:[^"\\]|\\.)*)"')
node_re=re.compile(r'^(-?\d+) \[label=.*style = filled\]')
n_edges=0
for line in open(sys.argv[1]):
    m=edge_re.match(line)
    if m:
        edges[m.group(1)].append((m.group(2), m.group(3).replace('\\"','"'))); n_edges+=1
        continue
    m=node_re.match(line)
    if m: init=m.group(1)
# BFS tree from init
parent={init:None}; order=[init]; dq=collections.deque([init])
while dq:
    u=dq.popleft()
    for (v,l) in edges.get(u,[]):
        if v not in parent:
            parent[v]=(u,l); dq.append(v); order.append(v)
def path_to(u):
    p=[]
    while parent[u] is not None:
        pu,l=parent[u]; p.append((pu,l,u)); u=pu
    return p[::-1]
covered=set(); paths=[]
# deterministic order: edges sorted by BFS order of source
for u in order:
    for idx,(v,l) in enumerate(edges.get(u,[])):
        if (u,idx) in covered: continue
        p=path_to(u)
        for (a,lab,b) in p:
            # mark tree edges as covered
            for j,(vv,ll) in enumerate(edges[a]):
                if vv==b and ll==lab: covered.add((a,j)); break
        cur=u; nxt=(idx,v,l)
        while nxt is not None:
            j,vv,ll=nxt; covered.add((cur,j)); p.append((cur,ll,vv)); cur=vv
            nxt=None
            for j2,(v2,l2) in enumerate(edges.get(cur,[])):
                if (cur,j2) not in covered: nxt=(j2,v2,l2); break
        paths.append(p)
tot=sum(len(p) for p in paths)
print(f"nodes={len(parent)} edges={n_edges} paths={len(paths)} total_steps={tot} avg_len={tot/len(paths):.1f} time={time.time()-t0:.1f}s", file=sys.stderr)
# emit: each path as list of labels plus, per step, the set of labels enabled at the source state
with open(sys.argv[2],'w') as f:
    for p in paths:
        steps=[{"a":lab,"en":sorted(set(l for (_,l) in edges[a]))} for (a,lab,b) in p]
        f.write(json.dumps(steps)+"\n")
