use std::io::{Read, Write};
use std::num::NonZeroU64;
use std::sync::{Arc, Mutex};
use std::time::Instant;
use lzma_rust2::verif_rt::{self, Op, Random, Replay, Report};
use lzma_rust2::*;

fn make_stream(units: usize, unit_len: usize) -> (Vec<u8>, Vec<u8>) {
    // independent chunks: dict 4096 -> chunk_size clamps to 4096, so use flush-separated writers concatenated by hand
    let mut all = Vec::new(); let mut data = Vec::new();
    for u in 0..units {
        let d: Vec<u8> = (0..unit_len).map(|i| ((i * 7 + u * 13) % 251) as u8).collect();
        let mut o = LZMA2Options::with_preset(0); o.lzma_options.dict_size = 4096;
        let mut w = LZMA2Writer::new(Vec::new(), o); w.write_all(&d).unwrap(); w.flush().unwrap();
        let enc = w.into_inner(); // no terminator
        all.extend(enc); data.extend(d);
    }
    all.push(0);
    (all, data)
}

#[derive(Debug, Clone, PartialEq)]
enum Outcome { Ok(bool), Err(String), }

fn scenario(stream: Vec<u8>, expect: Vec<u8>, workers: u32, out: Arc<Mutex<Option<Outcome>>>) -> impl FnOnce() + Send + 'static {
    move || {
        let mut r = LZMA2ReaderMT::new(stream.as_slice(), 4096, None, workers);
        let mut buf = Vec::new();
        let res = r.read_to_end(&mut buf);
        *out.lock().unwrap() = Some(match res { Ok(_) => Outcome::Ok(buf == expect), Err(e) => Outcome::Err(e.to_string()) });
        drop(r);
    }
}

fn classify(rep: &Report) -> &'static str {
    let main_done = rep.log.iter().any(|(t, o)| *t == 0 && *o == Op::Exit);
    if rep.deadlock && !main_done { "DEADLOCK" } else if rep.deadlock { "LEAK" } else { "clean" }
}

fn main() {
    std::panic::set_hook(Box::new(|_| {}));
    let (s3, d3) = make_stream(3, 300);
    // 1. random schedules on a valid stream
    let t0 = Instant::now(); let mut stats = std::collections::BTreeMap::new(); let mut steps = 0usize; let mut leak_seed = None;
    for seed in 0..300u64 {
        let out = Arc::new(Mutex::new(None));
        let rep = verif_rt::run(Box::new(Random(seed * 7919 + 1)), 20000, scenario(s3.clone(), d3.clone(), 2, out.clone()));
        steps += rep.steps;
        let c = classify(&rep);
        if c == "LEAK" && leak_seed.is_none() { leak_seed = Some((seed, rep.log.len(), rep.blocked.clone())); }
        *stats.entry(format!("{} {:?}", c, out.lock().unwrap().clone())).or_insert(0) += 1;
    }
    println!("valid stream, 300 random schedules: {:?} in {:?}, avg steps {}", stats, t0.elapsed(), steps / 300);
    println!("first leak: {:?}", leak_seed);
    // 2. corrupt unit
    let mut bad = s3.clone(); let p = bad.len() / 2; bad[p] ^= 0x5a;
    let mut stats = std::collections::BTreeMap::new();
    for seed in 0..100u64 {
        let out = Arc::new(Mutex::new(None));
        let rep = verif_rt::run(Box::new(Random(seed * 104729 + 3)), 20000, scenario(bad.clone(), d3.clone(), 2, out.clone()));
        *stats.entry(format!("{} {:?}", classify(&rep), out.lock().unwrap().clone())).or_insert(0) += 1;
    }
    println!("corrupt unit: {:?}", stats);
    // 3. zero-length input
    let out = Arc::new(Mutex::new(None));
    let rep = verif_rt::run(Box::new(Random(1)), 20000, scenario(vec![], vec![], 2, out.clone()));
    println!("zero-length: {} {:?} blocked={:?}", classify(&rep), out.lock().unwrap(), rep.blocked);
    // 4. replay determinism: same schedule twice gives identical logs
    let out = Arc::new(Mutex::new(None));
    let a = verif_rt::run(Box::new(Random(42)), 20000, scenario(s3.clone(), d3.clone(), 2, out.clone()));
    let sched: Vec<usize> = a.log.iter().skip(1).filter(|(_, o)| !matches!(o, Op::User(_))).map(|(t, _)| *t).collect();
    let b = verif_rt::run(Box::new(Replay(sched.clone(), 0)), 20000, scenario(s3.clone(), d3.clone(), 2, out.clone()));
    println!("replay identical: {} (len {})", a.log == b.log, a.log.len());
    for (t, o) in a.log.iter().take(40) { print!("{}:{:?} ", t, o); } println!();
}
