---------------------------- MODULE LzipDict ----------------------------
(* DRAFT: lzip.rs encode_dict_size / decode_dict_size transcribed; header dictionary must cover
   the dictionary the encoder searched (LZIPWriter clamps to 4 KiB..512 MiB first). *)
EXTENDS Naturals, TLC
CONSTANTS FixFloor   \* fraction rounded down (size rounded up) instead of div_ceil

Pow2(n) == 2 ^ n
MinD == 4096
MaxD == 512 * 1024 * 1024

\* smallest b with 2^b >= d, at least 12
RECURSIVE Log2Up(_, _)
Log2Up(d, b) == IF Pow2(b) >= d THEN b ELSE Log2Up(d, b + 1)

DivCeil(a, b) == (a + b - 1) \div b

Encode(d) ==   \* returns <<base_log2, fraction>>
  LET b == Log2Up(d, 12)
      base == Pow2(b)
      unit == base \div 16
      diff == base - d
      f == IF diff = 0 THEN 0 ELSE IF FixFloor THEN diff \div unit ELSE DivCeil(diff, unit)
  IN IF f > 7 THEN <<b + 1, 0>> ELSE <<b, f>>

Decode(e) == Pow2(e[1]) - (Pow2(e[1]) \div 16) * e[2]

\* every boundary of the representable grid, +-1
Cands == { Pow2(b) - k * (Pow2(b) \div 16) + delta - 1 : b \in 12..29, k \in 0..7, delta \in 0..2 }
Sizes == { d \in Cands : d >= MinD /\ d <= MaxD }

VARIABLE d
Init == d \in Sizes
Next == UNCHANGED d
Spec == Init /\ [][Next]_d

Covers == Decode(Encode(d)) >= d
InRange == (Encode(d)[1] \in 12..29 /\ Encode(d)[2] \in 0..7) \/ Encode(d)[1] = 30
\* the header value is the smallest representable size >= d
Minimal == \A b \in 12..29, k \in 0..7 :
             LET v == Pow2(b) - k * (Pow2(b) \div 16) IN (v >= d) => (v >= Decode(Encode(d)))
=============================================================================
